#!/venv/bin/python
"""Validate a seeded change delivered by a sub-agent and file it under /verif/seeded/<id>/.

  tools/seed_import.py <PID> <agent-out-dir> <m1|m2|...> [--needs "..."]

Confirms in a fresh scratch worktree of /repo HEAD (never in /repo itself):
  1. the patch applies;  2. the demonstration passes without it and fails with it;
  3. every baseline-passing test of the pinned suite still passes with it.
Only then writes patch.diff, demo.py, notes.md and meta.json.
"""
import json
import os
import shutil
import subprocess
import sys

sys.path.insert(0, os.path.dirname(os.path.abspath(__file__)))
from mutate import drop_worktree, make_worktree, sh, suite_survives  # noqa: E402

VERIF = os.path.dirname(os.path.dirname(os.path.abspath(__file__)))


def run_demo(wt, demo):
    env = dict(os.environ, PYTHONPATH=os.path.join(wt, "src"), PYTHONDONTWRITEBYTECODE="1")
    r = subprocess.run(["/venv/bin/python", demo], cwd=wt, env=env, capture_output=True, text=True, timeout=600)
    return r.returncode, (r.stdout + r.stderr).strip().splitlines()[-3:]


def main():
    pid, out, m = sys.argv[1:4]
    needs = sys.argv[sys.argv.index("--needs") + 1] if "--needs" in sys.argv else ""
    patch, demo, notes = (os.path.join(out, f"{m}{s}") for s in (".diff", "_demo.py", ".md"))
    sid = f"{pid}-{m}"
    wt = make_worktree("imp-" + sid)
    try:
        # the agents' demos hard-code their own worktree path; rewrite it to be location independent
        text = open(demo).read().replace(f"/tmp/seed-{pid}/wt", wt)
        tmp_demo = os.path.join("/var/tmp", f"demo-{sid}.py")
        open(tmp_demo, "w").write(text)
        rc0, tail0 = run_demo(wt, tmp_demo)
        r = sh(["git", "-C", wt, "apply", patch])
        if r.returncode != 0:
            print("REJECT: patch does not apply:", r.stderr)
            return 1
        rc1, tail1 = run_demo(wt, tmp_demo)
        ok, broken = suite_survives(wt)
        head = sh(["git", "-C", "/repo", "rev-parse", "HEAD"]).stdout.strip()
        print(f"{sid}: demo pristine exit={rc0}, with change exit={rc1}; suite survives={ok} {broken[:3]}")
        if rc0 != 0 or rc1 == 0 or not ok:
            print("REJECT")
            return 1
        d = os.path.join(VERIF, "seeded", sid)
        os.makedirs(d, exist_ok=True)
        shutil.copy(patch, os.path.join(d, "patch.diff"))
        open(os.path.join(d, "demo.py"), "w").write(open(demo).read().replace(f"/tmp/seed-{pid}/wt", "."))
        if os.path.exists(notes):
            shutil.copy(notes, os.path.join(d, "notes.md"))
        meta = {
            "property": pid, "id": sid, "source": "independent sub-agent given only the property text and a scratch worktree",
            "needs_to_manifest": needs or (open(notes).read().strip() if os.path.exists(notes) else ""),
            "validated_against_repo_head": head,
            "what_i_ran": [
                "git worktree add --detach <scratch> HEAD (of /repo); git apply patch.diff",
                f"demo.py: exit {rc0} without the change, exit {rc1} with it (PYTHONPATH=<scratch>/src)",
                f"pinned suite with PYTHONPATH=<scratch>/src: all {len(json.load(open('/root/.vp/BASELINE.json'))['stable_pass'])} baseline-passing tests still pass",
            ],
            "demo_failure_tail": tail1,
        }
        json.dump(meta, open(os.path.join(d, "meta.json"), "w"), indent=1)
        os.remove(tmp_demo)
        print("FILED", d)
        return 0
    finally:
        drop_worktree(wt)


if __name__ == "__main__":
    sys.exit(main())
