#!/venv/bin/python
"""Determinism sweep: the event-log digest of a simulated run must be a pure function of (seed, code).

  tools/determinism_sweep.py [--n 400] [--seeds 0,1,7] [--pids C01,C04,...] [--tier quick]

For every property and VERIF_SEED value, run indices [0, n) are executed in fresh interpreters under
PYTHONHASHSEED 0, 1 and 12345, split over a different number of processes each time (1, 3 and 5 slices, so the
same run lands in different processes with different predecessors), and all digests are compared.  Exit 0 iff
every run produced the same digest in all three passes.  Results: /verif/mutants/determinism.json
"""
import argparse
import json
import os
import subprocess
import sys
import time
from concurrent.futures import ThreadPoolExecutor

VERIF = os.path.dirname(os.path.dirname(os.path.abspath(__file__)))
ALL = ["C01", "C04", "C05", "C11", "C12", "C13", "C14", "C15", "C17", "C20"]


def digests(pid, tier, seed, idx, hashseed):
    env = dict(os.environ, PYTHONHASHSEED=str(hashseed), PYTHONDONTWRITEBYTECODE="1", VERIF_REEXEC="1",
               OMP_NUM_THREADS="1", OPENBLAS_NUM_THREADS="1", MKL_NUM_THREADS="1")
    p = subprocess.run([sys.executable, os.path.join(VERIF, "check"), pid, "--tier", tier, "--seed", str(seed),
                        "--digests", ",".join(map(str, idx))], capture_output=True, text=True, env=env, cwd=VERIF, timeout=7200)
    if p.returncode != 0:
        raise RuntimeError(f"{pid} seed {seed}: digest pass failed\n{p.stderr[-2000:]}")
    return json.loads(p.stdout.strip().splitlines()[-1])


def one_pass(pool, pid, tier, seed, n, hashseed, slices):
    idx = list(range(n))
    parts = [idx[k::slices] for k in range(slices)]
    if hashseed != 0:
        parts = [list(reversed(p)) for p in parts]  # different predecessors inside the process, too
    out = {}
    for d in pool.map(lambda part: digests(pid, tier, seed, part, hashseed), parts):
        out.update(d)
    return out


def main():
    ap = argparse.ArgumentParser()
    ap.add_argument("--n", type=int, default=400)
    ap.add_argument("--seeds", default="0,1,7")
    ap.add_argument("--pids", default=",".join(ALL))
    ap.add_argument("--tier", default="quick")
    ap.add_argument("--jobs", type=int, default=14)
    a = ap.parse_args()
    res, bad = [], 0
    t0 = time.time()
    with ThreadPoolExecutor(a.jobs) as pool:
        for pid in a.pids.split(","):
            for seed in [int(s) for s in a.seeds.split(",")]:
                t1 = time.time()
                p0 = one_pass(pool, pid, a.tier, seed, a.n, 0, 1 if a.n < 50 else 4)
                p1 = one_pass(pool, pid, a.tier, seed, a.n, 1, 3)
                p2 = one_pass(pool, pid, a.tier, seed, a.n, 12345, 5)
                diff = sorted(int(i) for i in p0 if not (p0[i] == p1.get(i) == p2.get(i)))
                none = sum(1 for i in p0 if p0[i] is None)
                bad += len(diff)
                res.append({"property": pid, "VERIF_SEED": seed, "runs": a.n, "passes": 3, "hashseeds": [0, 1, 12345],
                            "process_slices": [1 if a.n < 50 else 4, 3, 5], "mismatching_run_indices": diff, "runs_without_digest": none,
                            "wall_s": round(time.time() - t1, 1)})
                print(json.dumps(res[-1]), flush=True)
    os.makedirs(os.path.join(VERIF, "mutants"), exist_ok=True)
    if not os.environ.get("VERIF_REPO_ROOT"):
        json.dump({"tier": a.tier, "wall_s": round(time.time() - t0, 1), "results": res},
                  open(os.path.join(VERIF, "mutants", "determinism.json"), "w"), indent=1)
    print("determinism sweep:", "IDENTICAL" if bad == 0 else f"{bad} MISMATCHES")
    return 0 if bad == 0 else 2


if __name__ == "__main__":
    sys.exit(main())
