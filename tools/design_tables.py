#!/venv/bin/python
"""Regenerates the generated blocks of DESIGN.md (sensitivity and throughput tables) from
/verif/mutants/results-*.json and /verif/evidence/*.json."""
import glob
import json
import os
import re

VERIF = os.path.dirname(os.path.dirname(os.path.abspath(__file__)))


def block(s, name, text):
    return re.sub(rf"<!-- BEGIN:{name} -->.*?<!-- END:{name} -->", f"<!-- BEGIN:{name} -->\n{text}\n<!-- END:{name} -->", s, flags=re.S)


def sensitivity():
    out = []
    p = os.path.join(VERIF, "mutants/results-table.json")
    if os.path.exists(p):
        res = json.load(open(p))["results"]
        out.append(f"**Own mutants** ({sum(1 for r in res if r.get('detected'))}/{len(res)} make their check exit 1, quick tier):\n")
        out.append("| mutant | property | change | first violation key reported |")
        out.append("|---|---|---|---|")
        for r in res:
            key = (r.get("violations") or ["- NOT DETECTED -"])[0] if "error" not in r else "ERROR " + r["error"]
            out.append(f"| {r['id']} | {r['pid']} | {r.get('what', '')} | `{key}` |")
        out.append("")
    p = os.path.join(VERIF, "mutants/results-seeded.json")
    if os.path.exists(p):
        res = [r for r in json.load(open(p))["results"] if os.path.exists(os.path.join(VERIF, "seeded", r["id"], "patch.diff"))]
        n = sum(1 for r in res if r.get("detected"))
        out.append(f"**Seeded changes by independent sub-agents** ({n}/{len(res)} make the property's quick check exit 1 with the machinery as committed):\n")
        out.append("| seeded change | property | what it needs in order to manifest (author's note, abridged) | violation key reported by the check | failing runs / runs |")
        out.append("|---|---|---|---|---|")
        for r in res:
            meta = json.load(open(os.path.join(VERIF, "seeded", r["id"], "meta.json")))
            needs = " ".join(meta.get("needs_to_manifest", "").split())[:260]
            main = r.get(r["pid"], {})
            key = (main.get("violations") or ["- NOT DETECTED -"])[0] if "error" not in r else "ERROR"
            margin = f"{main.get('violating_runs')} / {main.get('runs')}" if main.get("violating_runs") is not None else "-"
            out.append(f"| {r['id']} | {r['pid']} | {needs} | `{key}` | {margin} |")
    p = os.path.join(VERIF, "mutants/results-benign.json")
    if os.path.exists(p):
        res = [r for r in json.load(open(p))["results"] if os.path.exists(os.path.join(VERIF, "benign", r["id"], "patch.diff"))]
        n = sum(1 for r in res if r.get("silent"))
        out.append("")
        out.append(f"**Benign (behaviour-preserving) changes** ({n}/{len(res)} leave every quick check silent, i.e. exit 0; the last re-run covered the checks whose worlds execute the files a change touches):\n")
        out.append("| change | what it does (author's note, abridged) | checks that raised an alarm |")
        out.append("|---|---|---|")
        for r in res:
            note = ""
            np_ = os.path.join(VERIF, "benign", r["id"], "notes.md")
            if os.path.exists(np_):
                note = " ".join(open(np_).read().split())[:240]
            bad = [pid for pid, c in r.get("checks", {}).items() if c["exit"] != 0]
            out.append(f"| {r['id']} | {note} | {', '.join(bad) or 'none'} |")
    return "\n".join(out)


def throughput():
    out = ["| id | tier | runs | steps | distinct non-trivial | runs/hour (16 workers) | faults fired (by kind) | probes stuck at zero |", "|---|---|---|---|---|---|---|---|"]
    for f in sorted(glob.glob(os.path.join(VERIF, "evidence/C??.json"))):
        e = json.load(open(f))
        c = e["coverage"]
        faults = ", ".join(f"{k} {v}" for k, v in c["faults_fired"].items()) or "-"
        out.append(f"| {e['property_id']} | {e['tier']} | {c['evaluations']} | {c['steps_executed']} | {c['distinct_nontrivial']} | {c['runs_per_hour']} | {faults} | {', '.join(c['probes_zero']) or '-'} |")
    out.append("\nSimulated time: none - nothing under test reads a clock; progress is counted in logical steps. "
               "The numbers above are those of the evidence files committed with this document (re-run the checks to refresh them).")
    return "\n".join(out)


def main():
    p = os.path.join(VERIF, "DESIGN.md")
    s = open(p).read()
    s = block(s, "sensitivity", sensitivity())
    s = block(s, "throughput", throughput())
    open(p, "w").write(s)
    print("DESIGN.md tables regenerated")


if __name__ == "__main__":
    main()
