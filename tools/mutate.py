#!/venv/bin/python
"""Sensitivity runs: apply a change to a scratch worktree of /repo (never to /repo itself), point a check at
it through VERIF_REPO_ROOT, and report whether the check raises a VIOLATION.

  tools/mutate.py table [--only ID ...] [--tier quick] [--runs N] [--jobs J]   own mutants (tools/mutants_table.py)
  tools/mutate.py seeded [--only DIR ...] [--jobs J]                            /verif/seeded/<id>/patch.diff
  tools/mutate.py suite  <patch.diff>                                            does the pinned test suite still pass?

Results go to /verif/mutants/results-<kind>.json.  Scratch worktrees live under /var/tmp/oq-mut-* and are removed.
"""
import argparse
import json
import os
import re
import subprocess
import sys
import tempfile
import time
import xml.etree.ElementTree as ET
from concurrent.futures import ThreadPoolExecutor

VERIF = os.path.dirname(os.path.dirname(os.path.abspath(__file__)))
REPO = "/repo"


def sh(cmd, **kw):
    return subprocess.run(cmd, capture_output=True, text=True, **kw)


def make_worktree(tag):
    path = f"/var/tmp/oq-mut-{tag}-{os.getpid()}"
    sh(["git", "-C", REPO, "worktree", "remove", "--force", path])
    r = sh(["git", "-C", REPO, "worktree", "add", "--detach", path, "HEAD"])
    if r.returncode != 0:
        raise RuntimeError(r.stderr)
    return path


def drop_worktree(path):
    sh(["git", "-C", REPO, "worktree", "remove", "--force", path])
    sh(["rm", "-rf", path])


def run_check(pid, root, tier="quick", runs=None, workers=4, seed=0, timeout=1500):
    env = dict(os.environ, VERIF_REPO_ROOT=root, VERIF_WORKERS=str(workers))
    cmd = [os.path.join(VERIF, "check"), pid, "--tier", tier, "--seed", str(seed)]
    if runs:
        cmd += ["--runs", str(runs)]
    t0 = time.time()
    try:
        r = sh(cmd, env=env, cwd=VERIF, timeout=timeout)
        out, code = r.stdout + r.stderr, r.returncode
    except subprocess.TimeoutExpired as e:
        out, code = (e.stdout or "") + "\nTIMEOUT", 124
    keys = re.findall(r"^violation seed=(-?\d+) key=(\S+)", out, re.M)
    vr = re.search(r"violating_runs=(\d+)", out)
    nr = re.search(r"\] runs=(\d+)", out)
    return {"exit": code, "violating_runs": int(vr.group(1)) if vr else None, "runs": int(nr.group(1)) if nr else None, "violations": [k for _, k in keys], "seeds": [int(s) for s, _ in keys], "wall_s": round(time.time() - t0, 1),
            "harness_error": "HARNESS-ERROR" in out, "tail": out.strip().splitlines()[-1:] if out.strip() else []}


def suite_survives(root):
    """True iff every test in BASELINE.stable_pass still passes against <root>/src."""
    xml = tempfile.mktemp(suffix=".xml", dir="/var/tmp")
    env = dict(os.environ, PYTHONPATH=os.path.join(root, "src"), PYTHONDONTWRITEBYTECODE="1")
    sh(["/venv/bin/python", "-m", "pytest", "-q", "-p", "no:cacheprovider", "--timeout=900", "--continue-on-collection-errors",
        f"--junitxml={xml}"], cwd=root, env=env)
    sp = set(json.load(open("/root/.vp/BASELINE.json"))["stable_pass"])
    passed = set()
    try:
        for tc in ET.parse(xml).iter("testcase"):
            if not any(ch.tag in ("failure", "error", "skipped") for ch in tc):
                passed.add(tc.get("classname") + "::" + tc.get("name"))
    finally:
        if os.path.exists(xml):
            os.remove(xml)
    broken = sorted(sp - passed)
    return len(broken) == 0, broken[:10]


def do_table(a):
    sys.path.insert(0, os.path.join(VERIF, "tools"))
    from mutants_table import MUTANTS

    todo = [m for m in MUTANTS if not a.only or m["id"] in a.only or m["pid"] in a.only]

    def one(m):
        wt = make_worktree(m["id"])
        try:
            p = os.path.join(wt, "src/orquestra/quantum", m["file"])
            s = open(p).read()
            if s.count(m["old"]) != 1:
                return {**_brief(m), "error": f"pattern occurs {s.count(m['old'])} times"}
            open(p, "w").write(s.replace(m["old"], m["new"]))
            res = run_check(m["pid"], wt, a.tier, a.runs, workers=a.workers, seed=a.seed)
            out = {**_brief(m), **res, "detected": res["exit"] == 1 and bool(res["violations"])}
            if a.suite:
                ok, broken = suite_survives(wt)
                out["survives_test_suite"] = ok
                out["suite_broken_sample"] = broken
            return out
        finally:
            drop_worktree(wt)

    with ThreadPoolExecutor(a.jobs) as ex:
        results = list(ex.map(one, todo))
    _report("table", results, a)


def _brief(m):
    return {"id": m["id"], "pid": m["pid"], "what": m["what"], "file": m["file"]}


def do_seeded(a):
    base = os.path.join(VERIF, "seeded")
    # a directory without patch.diff holds a retired change (patch.retired.diff, see its meta.json)
    dirs = sorted(d for d in os.listdir(base) if os.path.isfile(os.path.join(base, d, "patch.diff")))
    if a.only:
        dirs = [d for d in dirs if d in a.only or any(d.startswith(o) for o in a.only)]

    def one(d):
        meta = json.load(open(os.path.join(base, d, "meta.json")))
        wt = make_worktree(d)
        try:
            r = sh(["git", "-C", wt, "apply", os.path.join(base, d, "patch.diff")])
            if r.returncode != 0:
                return {"id": d, "pid": meta["property"], "error": "patch does not apply: " + r.stderr[:300]}
            out = {"id": d, "pid": meta["property"]}
            for pid in [meta["property"]] + (meta.get("also_check", []) if a.also else []):
                res = run_check(pid, wt, a.tier, a.runs, workers=a.workers, seed=a.seed)
                out[pid] = res
            out["detected"] = out[meta["property"]]["exit"] == 1
            return out
        finally:
            drop_worktree(wt)

    with ThreadPoolExecutor(a.jobs) as ex:
        results = list(ex.map(one, dirs))
    _report("seeded", results, a)


ALL_PIDS = ["C01", "C04", "C05", "C11", "C12", "C13", "C14", "C15", "C17", "C20"]

# which worlds execute code of which library file (directly or through the runners); used by `benign --relevant`
USERS = {
    "wavefunction.py": ["C01", "C04", "C12", "C14", "C15", "C20"],
    "utils.py": ["C04", "C05", "C11", "C12", "C13", "C14", "C17"],
    "measurements/": ["C04", "C11", "C13", "C14", "C15", "C20"],
    "circuits/_circuit.py": ["C01", "C04", "C05", "C14", "C15", "C20"],
    "circuits/_gates.py": ["C01", "C04", "C05", "C14", "C15", "C20"],
    "circuits/_builtin_gates.py": ["C01", "C04", "C05", "C14", "C15", "C20"],
    "circuits/_unitary_tools.py": ["C01", "C04", "C05", "C14", "C15", "C20"],
    "circuits/_wavefunction_operations.py": ["C01", "C04", "C14", "C20"],
    "circuits/_serde.py": ["C05", "C14", "C15", "C20"],
    "circuits/_itertools.py": ["C13"],
    "circuits/layouts.py": ["C11"],
    "operators/": ["C04", "C11", "C15", "C20"],
    "api/": ["C01", "C04", "C13", "C14", "C15", "C20"],
    "runners/": ["C01", "C04", "C13", "C14", "C15", "C20"],
    "estimation/": ["C15"],
    "distributions/": ["C04", "C13", "C14", "C17", "C20"],
}


def relevant_pids(patch_path):
    files = re.findall(r"^\+\+\+ b/src/orquestra/quantum/(\S+)", open(patch_path).read(), re.M)
    out = set()
    for f in files:
        hit = [v for k, v in USERS.items() if f == k or (k.endswith("/") and f.startswith(k))]
        if not hit:
            return list(ALL_PIDS)
        for v in hit:
            out.update(v)
    return [p_ for p_ in ALL_PIDS if p_ in out] or list(ALL_PIDS)


def do_benign(a):
    """Behaviour-preserving changes (/verif/benign/<id>/patch.diff): every check must stay silent (exit 0)."""
    base = os.path.join(VERIF, "benign")
    dirs = sorted(d for d in os.listdir(base) if os.path.isfile(os.path.join(base, d, "patch.diff")))
    if a.only:
        dirs = [d for d in dirs if d in a.only]

    def one(d):
        wt = make_worktree("benign-" + d)
        try:
            r = sh(["git", "-C", wt, "apply", os.path.join(base, d, "patch.diff")])
            if r.returncode != 0:
                return {"id": d, "pid": "-", "error": "patch does not apply: " + r.stderr[:300]}
            out = {"id": d, "pid": "all", "checks": {}}
            pids = relevant_pids(os.path.join(base, d, "patch.diff")) if getattr(a, "relevant", False) else ALL_PIDS
            if os.path.exists(os.path.join(VERIF, "mutants", "results-benign.json")) and getattr(a, "relevant", False):
                # keep earlier results of the checks not re-run
                old_ = {r["id"]: r for r in json.load(open(os.path.join(VERIF, "mutants", "results-benign.json")))["results"]}
                out["checks"].update(old_.get(d, {}).get("checks", {}))
            for pid in pids:
                out["checks"][pid] = run_check(pid, wt, a.tier, a.runs, workers=a.workers, seed=a.seed)
            out["checked_now"] = pids
            out["silent"] = all(c["exit"] == 0 for c in out["checks"].values())
            return out
        finally:
            drop_worktree(wt)

    with ThreadPoolExecutor(a.jobs) as ex:
        results = list(ex.map(one, dirs))
    os.makedirs(os.path.join(VERIF, "mutants"), exist_ok=True)
    path = os.path.join(VERIF, "mutants", "results-benign.json" if not a.seed else f"results-benign-seed{a.seed}.json")
    merged = {}
    if (a.only or getattr(a, "relevant", False)) and os.path.exists(path):
        merged = {r["id"]: r for r in json.load(open(path))["results"]}
    for r in results:
        merged[r["id"]] = r
    json.dump({"tier": a.tier, "results": [merged[k] for k in sorted(merged)]}, open(path, "w"), indent=1)
    for r in results:
        if "error" in r:
            print(r["id"], "ERROR", r["error"])
            continue
        bad = {p: (c["exit"], c["violations"][:1]) for p, c in r["checks"].items() if c["exit"] != 0}
        print(f"{r['id']:8s} silent={r['silent']} {bad if bad else ''}")


def _report(kind, results, a):
    os.makedirs(os.path.join(VERIF, "mutants"), exist_ok=True)
    path = os.path.join(VERIF, "mutants", f"results-{kind}.json" if not a.seed else f"results-{kind}-seed{a.seed}.json")
    old = {}
    if os.path.exists(path) and a.only:
        old = {r["id"]: r for r in json.load(open(path))["results"]}
    for r in results:
        old[r["id"]] = r
    merged = [old[k] for k in sorted(old)] if a.only else results
    json.dump({"tier": a.tier, "runs": a.runs, "results": merged}, open(path, "w"), indent=1)
    for r in results:
        if "error" in r:
            print(f"{r['id']:40s} ERROR {r['error']}")
            continue
        main = r if "exit" in r else r[r["pid"]]
        print(f"{r['id']:40s} {r['pid']} detected={r.get('detected')} exit={main['exit']} {main['wall_s']}s "
              f"{(main['violations'] or [''])[0]}" + (f" suite_survives={r['survives_test_suite']}" if "survives_test_suite" in r else ""))
    n = sum(1 for r in results if r.get("detected"))
    print(f"{n}/{len(results)} detected")


def do_suite(a):
    wt = make_worktree("suite")
    try:
        r = sh(["git", "-C", wt, "apply", os.path.abspath(a.patch)])
        if r.returncode != 0:
            print("patch does not apply:", r.stderr)
            return 2
        ok, broken = suite_survives(wt)
        print("suite survives:", ok, broken)
        return 0 if ok else 1
    finally:
        drop_worktree(wt)


def main():
    ap = argparse.ArgumentParser()
    sub = ap.add_subparsers(dest="cmd", required=True)
    for name in ("table", "seeded", "benign"):
        p = sub.add_parser(name)
        p.add_argument("--only", nargs="*")
        p.add_argument("--tier", default="quick")
        p.add_argument("--runs", type=int)
        p.add_argument("--jobs", type=int, default=4)
        p.add_argument("--workers", type=int, default=4)
        p.add_argument("--suite", action="store_true", help="also run the pinned test suite against each mutant")
        p.add_argument("--also", action="store_true")
        p.add_argument("--relevant", action="store_true", help="benign: only the checks whose worlds execute the files the patch touches")
        p.add_argument("--seed", type=int, default=0, help="VERIF_SEED block for the checks (results for seed != 0 go to results-<kind>-seed<N>.json)")
    p = sub.add_parser("suite")
    p.add_argument("patch")
    a = ap.parse_args()
    return {"table": do_table, "seeded": do_seeded, "suite": do_suite, "benign": do_benign}[a.cmd](a)


if __name__ == "__main__":
    sys.exit(main() or 0)
