"""Own sensitivity mutants (string replacements in /repo/src/orquestra/quantum/<file>).
Each must make the named property's check exit 1.  Patterns must occur exactly once."""

M = []


def m(id, pid, file, old, new, what):
    M.append({"id": id, "pid": pid, "file": file, "old": old, "new": new, "what": what})


WS = "api/wavefunction_simulator.py"
CR = "api/circuit_runner.py"
TR = "runners/trackers.py"
UT = "circuits/_unitary_tools.py"
CI = "circuits/_circuit.py"
WO = "circuits/_wavefunction_operations.py"
WF = "wavefunction.py"
IT = "circuits/_itertools.py"
ES = "estimation/_estimation.py"
MS = "measurements/measurements.py"
SE = "circuits/_serde.py"
OI = "operators/_io.py"
PO = "operators/_pauli_operators.py"
UL = "utils.py"
EV = "measurements/expectation_values.py"
PA = "measurements/parities.py"
LA = "circuits/layouts.py"
DM = "distributions/_measurement_outcome_distribution.py"
MMD = "distributions/mmd.py"

# ------------------------------------------------------------------ C01
m("c01-nonnative-reversed", "C01", WS, "                for operation in subcircuit.operations:\n                    state = operation.apply(state)",
  "                for operation in reversed(subcircuit.operations):\n                    state = operation.apply(state)", "non-native segment applied in reversed order")
m("c01-state-reset-per-segment", "C01", WS, "                state = self._get_wavefunction_from_native_circuit(subcircuit, state)",
  "                state = self._get_wavefunction_from_native_circuit(\n                    subcircuit, state if initial_state is not None else np.eye(1, 2**circuit.n_qubits)[0]\n                )",
  "native segments restart from |0..0> when no initial state was given")
m("c01-adjacent-sorted", "C01", UT, "    return list(qubit_indices) + [", "    return sorted(qubit_indices) + [", "_permutation_making_qubits_adjacent sorts the indices")
m("c01-trailing-identity-first", "C01", UT, "        [eye(2**smallest), inner_matrix, eye(2 ** (num_qubits - largest - 1))],",
  "        [eye(2 ** (num_qubits - largest - 1)), inner_matrix, eye(2**smallest)],", "identity padding swapped in _lift_matrix")
m("c01-append-circuit-width", "C01", CI, "        n_qubits=max(circuit.n_qubits, other.n_qubits),", "        n_qubits=other.n_qubits,", "_append_circuit takes other's width")
m("c01-multiphase-sign", "C01", WO, "np.exp(np.asarray(self.params, dtype=float) * 1j)", "np.exp(np.asarray(self.params, dtype=float) * -1j)", "MultiPhaseOperation applies exp(-i theta)")
m("c01-split-no-width", "C01", CI, "        yield predicate_value, Circuit(operations, n_qubits=n_qubits)", "        yield predicate_value, Circuit(operations)", "split_circuit drops the register width")
m("c01-append-op-width", "C01", CI, "        n_qubits=max(circuit.n_qubits, n_qubits_by_operation),", "        n_qubits=n_qubits_by_operation if circuit.operations else circuit.n_qubits,", "appending an operation shrinks an idle-qubit circuit")
# ------------------------------------------------------------------ C04
m("c04-outcome-probs-no-reversal", "C04", WF, 'format(i, "0" + str(self.n_qubits) + "b")[::-1] for i in range(len(self))', 'format(i, "0" + str(self.n_qubits) + "b") for i in range(len(self))', "get_outcome_probs without reversal")
m("c04-large-branch-no-reversal", "C04", WF, "        outcome_tuples += convert_bitstrings_to_tuples(outcome_strings)", "        outcome_tuples += [tuple(int(b) for b in s) for s in outcome_strings]", "many-samples branch converts without reversal")
m("c04-bitstring-to-tuple-no-reversal", "C04", UL, "    measurement = tuple(int(bit) for bit in bitstring[::-1])", "    measurement = tuple(int(bit) for bit in bitstring)", "bitstring_to_tuple not reversing")
m("c04-exact-dist-reversed", "C04", DM, "        key: float(value) for key, value in zip(keys, prob_distribution)", "        key[::-1]: float(value) for key, value in zip(keys, prob_distribution)", "exact distribution keyed by reversed product")
m("c04-sampler-epsilon", "C04", WF, "    probabilities = [\n        x[0] if isinstance(x, (list, np.ndarray)) else x for x in list(probabilities_np)\n    ]",
  "    probabilities = [\n        x[0] if isinstance(x, (list, np.ndarray)) else x for x in list(probabilities_np)\n    ]\n    probabilities = list((np.asarray(probabilities, dtype=float) + 1e-12) / (1 + 1e-12 * len(probabilities)))",
  "sampler smooths zero probabilities")
m("c04-expectation-reverse-default", "C04", WS, "        return get_expectation_value(operator, wavefunction).real", "        return get_expectation_value(operator, wavefunction, True).real", "exact expectation reverses operator qubits")
# ------------------------------------------------------------------ C05
m("c05-exponent-dropped", "C05", SE, '        "exponent": gate.exponent,\n', '        "exponent": int(gate.exponent),\n', "power exponent truncated to int on save")
m("c05-qubits-sorted", "C05", SE, '        qubit_indices=tuple(dict_["qubit_indices"]),', '        qubit_indices=tuple(sorted(dict_["qubit_indices"])),', "qubit indices sorted on load")
m("c05-controls-default", "C05", SE, '        return _gates.ControlledGate(wrapped_gate, dict_["num_control_qubits"])', '        return _gates.ControlledGate(wrapped_gate, 1)', "control count ignored on load")
m("c05-params-ordering-reversed", "C05", SE, "        params_ordering=tuple(symbols),", "        params_ordering=tuple(reversed(symbols)),", "custom definition params_ordering reversed on load")
m("c05-ensure-open-append", "C05", UL, '        with open(path_like, mode, encoding=encoding if "b" not in mode else None) as f:', '        with open(path_like, mode.replace("w", "a"), encoding=encoding if "b" not in mode else None) as f:', "ensure_open appends instead of truncating")
m("c05-nqubits-recomputed", "C05", SE, '        n_qubits=dict_["n_qubits"],', '        n_qubits=None,', "register width recomputed from operations on load")
m("c05-free-symbols-dropped", "C05", SE, '                deserialize_expr(param, dict_.get("free_symbols", []))', '                deserialize_expr(param, [])', "free-symbol table ignored for built-in gates")
m("c05-load-swallows", "C05", SE, "def load_circuit(load_src: LoadSource):\n    with ensure_open(load_src) as f:\n        return circuit_from_dict(json.load(f))",
  "def load_circuit(load_src: LoadSource):\n    with ensure_open(load_src) as f:\n        try:\n            return circuit_from_dict(json.load(f))\n        except ValueError:\n            return _circuit.Circuit()",
  "load_circuit returns an empty circuit for unreadable files")
m("c05-dagger-of-hermitian", "C05", SE, "        return _gates.Dagger(wrapped_gate)", "        return wrapped_gate.dagger", "Dagger wrapper normalised away on load")
# ------------------------------------------------------------------ C11
m("c11-imag-dropped-when-real-zero", "C11", OI, '        if term_dict["coefficient"].get("imag"):', '        if coefficient and term_dict["coefficient"].get("imag"):', "imaginary part dropped when the real part is zero")
m("c11-save-operator-append", "C11", OI, '    with open(filename, "w") as f:\n        f.write(json.dumps(convert_op_to_dict(operator), indent=2))', '    with open(filename, "a") as f:\n        f.write(json.dumps(convert_op_to_dict(operator), indent=2))', "save_operator appends")
m("c11-bitstrings-dedup", "C11", MS, "                list(map(int, list(bitstring))) for bitstring in self.bitstrings", "                list(map(int, list(bitstring))) for bitstring in dict.fromkeys(self.bitstrings)", "bitstrings de-duplicated on save")
m("c11-covariances-dropped-single-frame", "C11", EV, "        if self.estimator_covariances:\n", "        if self.estimator_covariances and len(self.estimator_covariances) > 1:\n", "covariances dropped when there is one frame")
m("c11-array-float32", "C11", UL, '        dictionary["real"] = array.tolist()', '        dictionary["real"] = array.astype(np.float32).tolist() if array.dtype.kind == "f" else array.tolist()', "real arrays saved through float32")
m("c11-layers-left-as-lists", "C11", LA, '        layers = [[tuple(x) for x in layer] for layer in data["layers"]]', '        layers = [list(layer) for layer in data["layers"]]', "CircuitLayers.from_dict leaves lists")
m("c11-parser-drops-sign", "C11", PO, '    value = complex(complex_str.replace(" ", ""))', '    value = complex(complex_str.replace(" ", "").lstrip("-"))', "parser discards a leading minus sign")
m("c11-load-list-reversed", "C11", UL, '    return data["list"]', '    return data["list"][::-1]', "load_list reverses")
m("c11-precision-ignored", "C11", UL, '            precision = dictionary["precision"]\n            return cls(value, precision)', '            precision = dictionary["precision"]\n            return cls(value, precision or None)', "zero precision becomes None on load")
m("c11-parities-correlations-first-only", "C11", PA, '                convert_array_to_dict(arr) for arr in self.correlations\n', '                convert_array_to_dict(arr) for arr in self.correlations[:1]\n', "only the first correlation frame of parities saved")
m("c11-opset-skips-empty", "C11", OI, "    for operator in operator_set:\n        dictionary", "    for operator in operator_set:\n        if not operator.terms:\n            continue\n        dictionary", "empty operators skipped in operator sets")
# ------------------------------------------------------------------ C12
m("c12-no-rollback", "C12", WF, "            if isinstance(self._amplitude_vector, np.ndarray):\n                self._amplitude_vector[...] = old_amplitudes\n            else:\n                self._amplitude_vector[:, :] = old_amplitudes\n", "            pass\n", "rollback removed")
m("c12-rollback-valueerror-only", "C12", WF, "        except Exception as error:", "        except ValueError as error:", "rollback armed for ValueError only (the repaired defect F13)")
m("c12-validate-before-write", "C12", WF, "        self._amplitude_vector[idx] = val\n\n        try:\n            self._check_normalization(self._amplitude_vector)", "        try:\n            self._check_normalization(self._amplitude_vector)\n            self._amplitude_vector[idx] = val", "validation happens before the write")
m("c12-bind-unchecked", "C12", WF, "        try:\n            return type(self)(result)\n        except ValueError:", "        try:\n            out = object.__new__(type(self))\n            out._amplitude_vector = result\n            return out\n        except ValueError:", "bind builds its result without the constructor check")
m("c12-dicke-off-by-one", "C12", WF, "                if not _most_significant_set_bit(current_value) <= n_qubits:", "                if not _most_significant_set_bit(current_value) < n_qubits:", "Dicke enumeration stops one bit early")
m("c12-save-drops-imag", "C12", WF, '    data["amplitudes"] = convert_array_to_dict(wavefunction.amplitudes)', '    data["amplitudes"] = convert_array_to_dict(wavefunction.amplitudes.real)', "save_wavefunction drops the imaginary part")
m("c12-ctor-length", "C12", WF, '        if bin(len(amplitude_vector)).count("1") != 1:', '        if bin(len(amplitude_vector)).count("1") > 2:', "constructor accepts length 6")
m("c12-old-val-view", "C12", WF, "        old_amplitudes = self._amplitude_vector.copy()\n", "        old_amplitudes = self._amplitude_vector\n", "rollback keeps a reference instead of a copy")
m("c12-rollback-one-entry", "C12", WF, "        old_amplitudes = self._amplitude_vector.copy()\n        self._amplitude_vector[idx] = val\n", "        old_amplitudes = self._amplitude_vector[idx]\n        if isinstance(old_amplitudes, np.ndarray):\n            old_amplitudes = old_amplitudes.copy()\n        self._amplitude_vector[idx] = val\n", "only the indexed entry is kept for rollback (half of the repaired defect F12)")
# ------------------------------------------------------------------ C13
m("c13-full-chunk-duplicated", "C13", IT, "        multiplicities * (max_sample_size,)\n        if n_samples % max_sample_size == 0", "        (multiplicities + 1) * (max_sample_size,)\n        if n_samples % max_sample_size == 0", "one extra full chunk when n is a multiple of max")
m("c13-combine-skips-last", "C13", IT, "        reduce(_combine_measurements, islice(measurements_it, multiplicity))\n        for multiplicity in multiplicities", "        reduce(_combine_measurements, list(islice(measurements_it, multiplicity))[: max(1, multiplicity - 1)])\n        for multiplicity in multiplicities", "last copy's counts dropped when combining")
m("c13-batch-min", "C13", IT, "        (circuits_chunk, max(samples_chunk))", "        (circuits_chunk, min(samples_chunk))", "batch sample size is the minimum of the chunk")
m("c13-elimination-skipped", "C13", MS, "                samples = _check_sample_elimination(\n                    samples, bitstring_samples, leftover_distribution\n                )\n                for sample in samples:\n                    for _ in range(samples[sample]):",
  "                for sample in samples:\n                    for _ in range(min(samples[sample], bitstring_samples.count(tuple(int(v) for v in sample)))):", "elimination check skipped (removes fewer shots)")
m("c13-discretize-no-remainder", "C13", UL, "    for index in range(int(round(total - sum(result)))):", "    for index in range(int(total - sum(result)) // 2 * 2):", "odd remainders not distributed")
m("c13-combine-bitstrings-overlap", "C13", IT, "        sum(islice(bitstrings_it, multiplicity), start=[])", "        sum(islice(bitstrings_it, max(multiplicity - 1, 1)), start=[])", "combine_bitstrings drops one copy")
# ------------------------------------------------------------------ C14
m("c14-counters-before-validation", "C14", CR, "        if n_samples <= 0:\n            raise ValueError(f\"Number of samples has to be positive, got {n_samples}\")\n        result = self._run_and_measure(circuit, n_samples)\n        self._n_circuits_executed += 1\n        self._n_jobs_executed += 1",
  "        self._n_circuits_executed += 1\n        self._n_jobs_executed += 1\n        if n_samples <= 0:\n            raise ValueError(f\"Number of samples has to be positive, got {n_samples}\")\n        result = self._run_and_measure(circuit, n_samples)", "counters bumped before validation")
m("c14-batch-validation-negative-only", "C14", CR, "        if any(n <= 0 for n in samples_per_circuit):", "        if any(n < 0 for n in samples_per_circuit):", "batch validation accepts 0")
m("c14-fanout-reversed-samples", "C14", CR, "            for circuit, n in zip(batch, samples_per_circuit)", "            for circuit, n in zip(batch, reversed(samples_per_circuit))", "fan-out zips circuits with reversed sample counts")
m("c14-nonnative-counted", "C14", WS, "            self._n_jobs_executed += 1\n            if is_supported:\n                self._n_circuits_executed += 1", "            self._n_jobs_executed += 1\n            self._n_circuits_executed += 1\n            if is_supported:", "non-native segments counted as circuits")
m("c14-tracker-previous-counts", "C14", TR, '            "counts": measurement.get_counts(),', '            "counts": self.raw_data[-1]["counts"] if self.raw_data else measurement.get_counts(),', "tracker records the previous measurement's counts within a batch")
m("c14-tracker-clears-before-write", "C14", TR, "    def save_raw_data(self) -> None:\n        with open", "    def save_raw_data(self) -> None:\n        self.raw_data = self.raw_data[-1:]\n        with open", "tracker keeps only the last record of a batch")
m("c14-tracker-returns-copy", "C14", TR, "        measurement = self.inner_backend.run_and_measure(circuit, n_samples)\n        self.record_raw_measurement_data(circuit, measurement)\n        self.save_raw_data()\n        return measurement", "        measurement = self.inner_backend.run_and_measure(circuit, n_samples)\n        self.record_raw_measurement_data(circuit, measurement)\n        self.save_raw_data()\n        return Measurements.from_counts(measurement.get_counts())", "tracker returns a copy rebuilt from counts")
m("c14-dist-accepts-zero", "C14", WS, "        if n_samples <= 0:\n            raise ValueError(f\"Number of samples has to be positive, got {n_samples}\")\n        result = self._run_and_measure(circuit, n_samples)\n        return result",
  "        if n_samples < 0:\n            raise ValueError(f\"Number of samples has to be positive, got {n_samples}\")\n        result = self._run_and_measure(circuit, n_samples)\n        return result", "simulator accepts n_samples = 0")
# ------------------------------------------------------------------ C15
m("c15-nonmeasured-at-measured-indices", "C15", ES, "        non_measured_expectation_values_list, indices_not_to_measure\n    ):", "        non_measured_expectation_values_list, sorted(indices_not_to_measure, reverse=True)\n    ):", "non-measured results written back in reversed index order")
m("c15-zero-shot-coefficient", "C15", ES, "            else:\n                coefficient = 0.0", "            else:\n                coefficient = task.operator.terms[0].coefficient", "zero-shot task yields the first coefficient")
m("c15-first-symbols-map", "C15", ES, "            circuit=estimation_task.circuit.bind(symbols_map),", "            circuit=estimation_task.circuit.bind(symbols_maps[0]),", "first symbols map used for every task")
m("c15-coefficients-dropped", "C15", MS, "            term.coefficient\n            * get_expectation_value_from_frequencies(term.qubits, bitstring_frequencies)", "            1.0\n            * get_expectation_value_from_frequencies(term.qubits, bitstring_frequencies)", "coefficients dropped in get_expectation_values")
m("c15-operators-reversed", "C15", ES, "            for frame_operator, measurements in zip(operators, measurements_list)", "            for frame_operator, measurements in zip(operators, reversed(measurements_list))", "operators zipped with reversed measurements")
m("c15-constant-first-term", "C15", ES, "            coefficient = sum(term.coefficient for term in task.operator.terms)", "            coefficient = task.operator.terms[0].coefficient", "constant operator evaluated by its first term (the repaired defect)")
# ------------------------------------------------------------------ C17
m("c17-pop", "C17", DM, "            new_counts[new_key] = self.distribution_dict[key] + new_counts.get(", "            new_counts[new_key] = self.distribution_dict.pop(key) + new_counts.get(", "subdistribution pops (needs list() too)")
m("c17-sorted-qubits", "C17", DM, "            new_key = tuple(key[i] for i in active_qubits)", "            new_key = tuple(key[i] for i in sorted(active_qubits))", "projection over sorted qubits")
m("c17-normalise-by-max", "C17", DM, "    norm = sum(measurement_outcome_distribution.values())\n    if norm == 0:", "    norm = max(measurement_outcome_distribution.values())\n    if norm == 0:", "normalise by the maximum")
m("c17-comma-join-dropped", "C17", DM, '        ",".join(map(str, key)) if isinstance(key, tuple) else key: value', '        "".join(map(str, key)) if isinstance(key, tuple) else key: value', "comma join dropped on save")
m("c17-mmd-target-keys-only", "C17", MMD, "    all_keys = set(target_keys).union(measured_keys)\n\n    target_values = []", "    all_keys = set(target_keys)\n\n    target_values = []", "MMD over the target's keys only")
m("c17-overwrite-instead-of-accumulate", "C17", DM, "            new_counts[new_key] = self.distribution_dict[key] + new_counts.get(\n                new_key, 0\n            )", "            new_counts[new_key] = self.distribution_dict[key]", "marginal overwrites instead of accumulating")
# ------------------------------------------------------------------ C20
m("c20-simplify-accumulates-in-place", "C20", PO, "                coeff = sum(t.coefficient for t in term_list)\n                if not np.isclose(coeff, 0.0):  # type: ignore\n                    terms.append(term_list[0].copy(new_coefficient=coeff))",
  "                coeff = sum(t.coefficient for t in term_list)\n                if not np.isclose(coeff, 0.0):  # type: ignore\n                    first_term.coefficient = coeff\n                    terms.append(first_term)", "simplify accumulates into the first like term")
m("c20-flip-in-place", "C20", WF, "    return np.asarray(amplitudes)[ordering]", "    arr = np.asarray(amplitudes)\n    arr[:] = arr[ordering]\n    return arr", "flip_amplitudes permutes in place")
m("c20-add-counts-on-receiver", "C20", MS, "        bitstrings = convert_tuples_to_bitstrings(self.bitstrings)\n        return dict(Counter(bitstrings))", "        self.bitstrings = sorted(self.bitstrings)\n        bitstrings = convert_tuples_to_bitstrings(self.bitstrings)\n        return dict(Counter(bitstrings))", "get_counts sorts the receiver's shots")
m("c20-circuit-add-extends", "C20", CI, "    return type(circuit)(\n        operations=[*circuit.operations, *other.operations],", "    circuit.operations.extend(other.operations)\n    return type(circuit)(\n        operations=circuit.operations,", "Circuit + Circuit extends the receiver")
m("c20-ctor-normalises-in-place", "C20", DM, "            res_dict[key] = value\n", "            return input_dict\n", "tuple-keyed input dict used (and normalised) in place")
m("c20-hc-in-place", "C20", "operators/_openfermion_utils/operator_utils.py", "        conjugate_operator = operator.copy(operator.coefficient.conjugate())", "        operator.coefficient = operator.coefficient.conjugate()\n        conjugate_operator = operator", "hermitian_conjugated conjugates a term in place")

# Dropped as equivalent (no observable change, confirmed by reading the code): "representing-distribution without
# deepcopy" (the copied dict is only read) and "_multiply_by_operator edits self._ops" (the receiver there is already
# a private copy made by __mul__).

MUTANTS = M
