#!/venv/bin/python
"""Reach measurement: which lines of the library does a world's simulated workload actually execute?

  tools/reach.py C12 [--runs 300] [--seed 0] [--files wavefunction.py,utils.py] [--show]

Runs <runs> seeded plans of the property's world in this process (no fork, so that coverage sees them) under
coverage.py restricted to /repo/src/orquestra/quantum and prints, per file named in the property's anchors (or
--files), executed/total statements and the line ranges never executed.  A blind spot in an anchored function means
the workload or the fault mix must change.  This is a development aid, not a check; it writes
/verif/mutants/reach-<pid>.json.
"""
import argparse
import json
import os
import sys

VERIF = os.path.dirname(os.path.dirname(os.path.abspath(__file__)))
sys.path.insert(0, VERIF)
os.environ.setdefault("PYTHONHASHSEED", "0")


def ranges(nums):
    out, start, prev = [], None, None
    for n in nums:
        if start is None:
            start = prev = n
        elif n == prev + 1:
            prev = n
        else:
            out.append((start, prev))
            start = prev = n
    if start is not None:
        out.append((start, prev))
    return [f"{a}" if a == b else f"{a}-{b}" for a, b in out]


def main():
    ap = argparse.ArgumentParser()
    ap.add_argument("pid")
    ap.add_argument("--runs", type=int, default=300)
    ap.add_argument("--seed", type=int, default=0)
    ap.add_argument("--files")
    ap.add_argument("--tier", default="quick")
    ap.add_argument("--show", action="store_true", help="print the source of the missing lines")
    a = ap.parse_args()
    import coverage

    root = os.path.join(os.environ.get("VERIF_REPO_ROOT", "/repo"), "src", "orquestra", "quantum")
    cov = coverage.Coverage(source=[root], data_file=None, branch=False)
    cov.start()  # before the library is imported, so that import-time lines (defs, decorators) count as executed
    from dst.simkit import runner
    from dst.simkit.core import execute

    world = runner.load_world(a.pid)
    findings, _ = runner.load_known(a.pid)
    keys = runner.known_patterns(findings)
    nviol = 0
    for i in range(a.runs):
        plan = world.gen_plan(a.seed * runner.SEED_MUL + i, a.tier)
        r = execute(world, plan, keys)
        nviol += bool(r.violation)
    cov.stop()
    props = {json.loads(l)["id"]: json.loads(l) for l in open(os.path.join(VERIF, "properties.jsonl"))}
    files = a.files.split(",") if a.files else [os.path.relpath(f, "src/orquestra/quantum") for f in props[a.pid]["anchors"]["files"]]
    out = {}
    for f in files:
        path = os.path.join(root, f)
        if not os.path.exists(path):
            continue
        _, stmts, _, missing, _ = cov.analysis2(path)
        out[f] = {"statements": len(stmts), "missing": len(missing), "missing_lines": ranges(missing)}
        print(f"{f}: {len(stmts) - len(missing)}/{len(stmts)} statements executed; never executed: {' '.join(ranges(missing))}")
        if a.show:
            src = open(path).read().splitlines()
            for n in missing:
                print(f"    {n:4d}: {src[n - 1]}")
    json.dump({"property": a.pid, "runs": a.runs, "violations_seen": nviol, "files": out},
              open(os.path.join(VERIF, "mutants", f"reach-{a.pid}.json"), "w"), indent=1)


if __name__ == "__main__":
    main()
