#!/venv/bin/python
"""Regenerates MANIFEST.json from the table below (kept in one place so it stays valid)."""
import json
import os

HERE = os.path.dirname(os.path.dirname(os.path.abspath(__file__)))

CLAIMED = {
    "C12": {
        "text": "Seeded search over histories of constructor/assignment/binding/read/Dicke/flip/save/load steps on a shared pool of Wavefunction objects, with a reference model predicting accept/reject, a whole-pool normalisation invariant after every step, rollback (atomicity) checks on every rejected mutation and save/load through a fault-injecting in-memory disk. A clean batch is evidence over the sampled histories (<=4 qubits, <=100 steps), not proof.",
        "design_ref": "DESIGN.md §3 C12",
        "note": "Trusted: the harness reference model (list of amplitudes, tolerance classification), SimFS as a faithful stand-in for the parts of open()/file objects the library uses, numpy/sympy themselves. Real code on the path: Wavefunction, flip_*, save/load_wavefunction.",
        "technique": "deterministic simulation: seeded history search with reference model, rejected-operation atomicity and disk fault injection",
    },
}

CLAIMED["C01"] = {
    "text": "Seeded search over sessions in which circuits are built, concatenated and extended in a shared pool and then evaluated (to_unitary, step-wise apply, get_wavefunction with and without initial state) by the bundled simulator and by simulators built on the real base class whose native-operation predicate is drawn per run, with peer failures injected; every answer is refined against an independent state-vector model built from each gate's own matrix. Evidence over sampled programs (<=5 qubits, <=12 ops, arity<=4), not proof; the first sentence of the property (a pure function) is exercised through the same oracle but simulation adds only program generation there.",
    "design_ref": "DESIGN.md §3 C01",
    "note": "Trusted: the tensordot reference model, each gate's own .matrix (taken as given, per the property's wording), numpy. Stub: the native applier of SplitSim (reference applier or operation.apply, per run). Real: Circuit, split_circuit, _lift_matrix*, GateOperation/MultiPhaseOperation.apply, BaseWavefunctionSimulator.get_wavefunction, SymbolicSimulator.",
    "technique": "deterministic simulation: seeded session search over plug-in simulator configurations with peer-fault injection, refinement against a state-vector reference model",
}

CLAIMED["C14"] = {
    "text": "Seeded search over call histories (single, batch, distribution, wavefunction and exact-expectation calls with valid and invalid arguments, interleaved by 1-3 clients) on runners built on the real base classes - the bundled simulator, simulators with run-specific native sets, a shot back-end that over-delivers and fails on schedule, each optionally behind the measurement tracker writing to a fault-injecting in-memory disk. A counter model, a peer-invocation ledger (validation before execution), attributable results and a parsed-record comparator are checked after every call. Evidence over sampled histories (<=30 calls, <=4 qubits), not proof.",
    "design_ref": "DESIGN.md §3 C14",
    "note": "Trusted: counter model and its narrow relaxation under injected faults, SimFS, SimRNG. Stub: ShotBackend._run_and_measure, SplitSim native applier/predicate. Real: BaseCircuitRunner, BaseWavefunctionSimulator, SymbolicSimulator, MeasurementTrackingBackend, sampling, Measurements, to_dict.",
    "technique": "deterministic simulation: seeded call-history search with counter reference model, fake back-end peers, RNG seam and disk fault injection",
}

CLAIMED["C04"] = {
    "text": "Seeded search over sessions in which one circuit per step (random numeric or a non-palindromic basis state) is viewed through every channel of one runner - state vector, exact distribution, sampled tuples and count strings in both internal sampling regimes and at their boundary, sampled distribution, exact and measurement-based expectation values of Z-type operators - under a simulated random generator (real numpy generators seeded per step, or an adversarial stub returning legal draws: first/last/least/most probable outcome, uniform, alternating), with caches cleared or warm and peer failures injected. All views must agree with a state-vector model with qubit 0 as most significant bit. Evidence over sampled programs (<=4 qubits), not proof.",
    "design_ref": "DESIGN.md §3 C04",
    "note": "Trusted: the state-vector model, the Z-eigenvalue table, SimRNG's legality rule (only outcomes of strictly positive probability). Stub: numpy Generator in adversarial mode, SplitSim native applier. Real: sample_from_wavefunction (both branches), Wavefunction readers, conversion caches, Measurements, distribution factory, sparse-operator expectation.",
    "technique": "deterministic simulation: seeded session search with simulated/adversarial RNG seam and configuration sweep over sampling regimes, refinement against a state-vector model",
}

CLAIMED["C15"] = {
    "text": "Seeded search over sessions of estimate / exact / bind steps: task lists of length 0-8 with every ordering of measurable, constant-operator (single term, unsimplified sum, empty sum) and zero-shot tasks are estimated through runner peers that over-deliver, fail on schedule, sit behind the tracker (fault-injecting disk) or implement only the bare protocol; each measurable task prepares its own basis state so results are attributable to their index, and the peer's request ledger (which circuits, which order, which shot counts, no call when nothing is measurable) is checked. Exact values are compared with the dense quadratic form, per-task binding with each task's own map. Evidence over sampled task lists, not proof.",
    "design_ref": "DESIGN.md §3 C15",
    "note": "Trusted: per-index expectation table (coefficient x Z-eigenvalue of the prepared basis state), dense Pauli reference, the request-ledger spy. Stub: ShotBackend, TaggedRunner, SimFS, SimRNG. Real: estimation module, EstimationTask, Measurements.get_expectation_values, base-class batch fan-out, SymbolicSimulator, tracker.",
    "technique": "deterministic simulation: seeded search over request/response histories through fake runner peers (over-delivery, failure, tracker + disk faults) with an ordering/attribution oracle",
}

CLAIMED["C13"] = {
    "text": "Seeded search over sessions of shot pipelines - expand -> run every copy on a shot back-end peer (single or batch calls) -> combine counts or bitstrings, and split-into-batches -> run - with a per-circuit shot ledger (each circuit prepares its own basis state so every shot is attributable), over-delivering and failing peers; distribution-representing measurements under a simulated random generator including adversarial legal draws that target the elimination loop; scale-and-discretise. Requests are biased to arithmetic boundaries. Evidence over sampled requests, not proof; the pure arithmetic helpers are covered only because the pipelines run through them.",
    "design_ref": "DESIGN.md §3 C13",
    "note": "Trusted: the shot ledger, the support/ share arithmetic of the oracle, SimRNG legality rule. Stub: ShotBackend peer, numpy.random.choice in adversarial mode. Real: _itertools (expand/split/combine), Measurements.get_measurements_representing_distribution with its resampling loop, scale_and_discretize, BaseCircuitRunner.",
    "technique": "deterministic simulation: seeded pipeline histories around a fake back-end peer with a conservation ledger, RNG seam with adversarial legal draws",
}

CLAIMED["C05"] = {
    "text": "Seeded search over sessions of save / load / dict-round-trip steps on a simulated disk shared by 1-3 clients: circuits and circuit lists (every built-in gate, custom gates with symbolic matrices also under wrappers, controlled/dagger/power/exponential nestings to depth 4, int/float/sympy-number/symbolic/indexed-symbol parameters, symbols named like sympy built-ins, empty circuits, idle qubits) are written through every handle kind (str, bytes, PathLike, caller-owned handle), overwritten by longer, shorter and other-kind values, and read back - also after saves that failed or crashed at a scheduled I/O event (open/write/close errors, torn writes, process crash, short reads). Oracle: acknowledged value must load and compare equal under an independent structural walk (width, op sequence, gate kind, wrapper nesting, control count, exponent, custom definition, qubit tuples, parameters), library equality, equal free symbols and equal unitary under random symbol assignments; after a failed save a load may fail or return old/new, never other data; injected errors must not be swallowed; caller-owned handles must stay open. Evidence over sampled sessions, not proof; the dictionary form itself is a pure function that is exercised, not decided, by simulation.",
    "design_ref": "DESIGN.md §3 C05",
    "note": "Trusted: SimFS as a stand-in for open()/file objects, the structural comparator, sympy.simplify for expression equality. Known findings (not alarms): one-ulp float loss (K5), plain+indexed symbol sharing a base name (K1). Real: circuits._serde, utils.ensure_open, gate classes and their equality, json, sympify.",
    "technique": "deterministic simulation: seeded store histories (save/overwrite/load) on a fault-injecting simulated disk with crash points, ACK/UNKNOWN durability model and structural+semantic comparator",
}

CLAIMED["C11"] = {
    "text": "Seeded search over sessions of save / load / dict-round-trip / text-round-trip steps on a simulated disk shared by 1-3 clients and eleven artefact kinds (Pauli operators and operator lists through rapidjson, measurement sets, expectation values with correlation/covariance frames, parity tallies, value estimates, plain lists, circuit layers, connectivity, ordering, measurement-count estimates): values are written through every handle kind their functions are annotated to accept, overwritten by longer, shorter and other-kind values, and read back - also after saves that failed or crashed at a scheduled I/O event (open/write/close errors, torn writes, crash leaving a torn prefix, short reads). Oracle: an acknowledged value loads and compares equal under a per-kind harness comparator (operators: same Pauli-string coefficient map to the 1e-8 tolerance, exact per-term parts when clearly simplified); after a failed save a load may fail or return old/new, never other data; injected errors are not swallowed; caller-owned handles stay open. The dict and print/parse channels are pure functions: exercised with the same comparators, decided by input generation only. Evidence over sampled sessions, not proof.",
    "design_ref": "DESIGN.md §3 C11",
    "note": "Trusted: SimFS, the per-kind comparators, linear independence of Pauli strings (coefficient map equality = matrix equality). Real: operators._io + rapidjson, Pauli __repr__/parser, Measurements.save/load_from_file, ExpectationValues/Parities/ValueEstimate/layers/connectivity/ordering/list/nmeas save+load, ensure_open.",
    "technique": "deterministic simulation: seeded store histories over eleven artefact kinds on a fault-injecting simulated disk with crash points and an ACK/UNKNOWN durability model",
}

CLAIMED["C17"] = {
    "text": "Seeded search over histories on a shared pool of distribution objects: construct (tuple / bit-string / comma keys, normalised, rescaled, unnormalised, and invalid: empty, negative, ragged, all-zero), marginalise over random ordered qubit subsets with results joining the pool and sources re-used by other clients, compare pairs (also a with a, also through evaluate_distribution_distance) with MMD (scalar and list sigma from 1e-3 to 1e4), clipped NLL and JS, and save/load single and list forms through a fault-injecting simulated disk. After every step every pool object must equal the snapshot taken at its creation (source left intact); marginals are refined against a reference marginal in listed order; MMD symmetric, >= 0, zero on itself; NLL >= entropy - K*eps; JS symmetric; an acknowledged save loads with the same keys and probabilities. The normalisation arithmetic and the distance laws are pure and are exercised inside the same history machine. Evidence over sampled histories, not proof.",
    "design_ref": "DESIGN.md §3 C17",
    "note": "Trusted: the creation-time snapshot, the reference marginal, the entropy bound derivation (Gibbs + clipping mass), SimFS. Known finding (not an alarm): single-subsystem outcomes >= 10 do not survive save/load (K3). Real: MeasurementOutcomeDistribution, subdistribution, the three distance functions, evaluate_distribution_distance, save/load functions.",
    "technique": "deterministic simulation: seeded histories on shared mutable objects with creation-time snapshots (source-intact invariant), reference marginal, and store steps on a fault-injecting simulated disk",
}

CLAIMED["C20"] = {
    "text": "Seeded search over histories of value-returning library calls (about 90 operations: circuit and gate composition, binding, inversion, control, serialisation, evaluation, splitting; operator arithmetic with operators and numbers on both sides, powers, simplify, conjugation, dict and sparse conversion, reversal, repr, ==, hash, properties; measurement counts, distributions, expectation values, parities, construction from counts and from a distribution, save; distribution marginals, distances, save; wavefunction readers, flips, sampling, binding, save; simulator calls) issued by 1-3 clients on one shared pool of objects and plain containers, with results joining the pool so that alias chains form. The whole pool (not only the arguments) is snapshotted through public attributes, iteration and repr before and after each call, and each call is made twice under the same simulated random stream (real numpy generators re-seeded identically, or adversarial legal draws) and, for saves, a fault-injecting simulated disk; results of the two calls must be canonically equal. Evidence over sampled histories, not proof.",
    "design_ref": "DESIGN.md §3 C20",
    "note": "Trusted: the canonical snapshot functions (what counts as observable), SimRNG re-seeding, SimFS. Calls that raise are not judged (the property speaks of operations that return); lazily cached private fields are not observable state. Real: every operation listed in evidence.real_entry_points_called.",
    "technique": "deterministic simulation: seeded call histories on a shared object pool with whole-pool before/after snapshots (aliasing visible), double execution under an identical simulated random stream, disk faults on save steps",
}

# additions of later rounds (DESIGN.md 10.6, rounds 4-5), appended to the texts above
EXTRA = {
    "C01": " Later additions: all-symbolic circuits (the library's sympy lifting path) compared after substituting a random point; failing allocations (MemoryError at a scheduled numpy allocation requested by the library) as a fault kind - the error may propagate or be coped with, the answer may never be wrong; back-ends that evolve the default state buffer in place. Rounds 8-9: registers of 9-10 qubits; a client evolving one state buffer layer by layer (same ndarray object, content replaced by the previous answer); the peer-partition oracle only demands that what the peer was handed is the native operations in order on the full register (an answer given without consulting the peer is judged by its value alone).",
    "C04": " Later additions: registers of 9-10 qubits with randomness on the lowest-numbered qubits; states the Wavefunction class accepts although their probabilities sum to 1-d, sampled up to 3e5 times directly and through runners (the sampler may refuse, it may never return an outcome of zero amplitude); the adversarial generator delegates every method other than choice() to real numpy. Rounds 8-9: parametric circuits - the symbolic state vector at a point, its Wavefunction.bind and the views of the circuit bound beforehand must agree; peer failures inside any view (state vector, exact expectation, exact distribution, samples) followed by the repeated request; back-ends working in place; echo gate pairs on permuted qubits.",
    "C05": " Later additions: saves through a caller-owned handle positioned after text the caller wrote itself (the caller's bytes must survive every outcome of the save, the document must load from that position). Rounds 8-9: Python complex parameters with 17-digit components, plain symbols that look like flattened indexed ones (x_3 next to x[3]), dictionary forms edited by the client between two serialisations.",
    "C12": " Later additions: drift sequences (many accepted assignments each inside the tolerance, all in one direction), boolean-mask and negative-step indices, containers assigned at integer indices (found F12), pairs of wavefunctions living on one shared array, Dicke states up to 11 qubits. Rounds 8-9: non-finite amplitudes (found F13); allocation faults (MemoryError from a numpy call made while an assignment or binding is re-validated): the object must be exactly as before or, for a legal assignment, exactly as completed.",
    "C13": " Later additions: weights held in caller-owned containers (list, tuple, float64/int64 arrays) reused across calls; an adversarial draw policy returning distinct outcomes in ascending probability. Rounds 8-9: numpy integer sample counts, maxima and shot numbers; foreign (sequence-like, tuple) circuits through expand_sample_sizes, identity of every returned entry.",
    "C14": " Later additions: tuple sequences for batch arguments; circuit objects that live for one call only (addresses are reused). Rounds 8-9: exact counters after a mid-batch failure of the stub peer; records must read back (circuit_from_dict) as the circuit that ran.",
    "C15": " Later additions: a peer that recycles the result objects it returned before, a peer that declines batch requests, circuits with idle upper qubits in the binding step. Rounds 8-9: operators re-weighted and extended in place between two exact evaluations, complex constants, tiny-weight terms, result objects edited by the client.",
    "C11": " Rounds 8-9: the client re-weights the operator it parsed from printed text, then the original is printed and parsed again; bool-bit measurement sets; transient write faults.",
    "C17": " Rounds 8-9: transient write faults (EINTR/EAGAIN after a partial write); supports of hundreds to thousands of outcomes on 10-12 qubits (distance laws and marginals).",
    "C20": " Later additions: after every call the client edits the (second) result - operators, matrices, sparse matrices, arrays, lists, dicts, wavefunctions, measurements, distributions - and no earlier object may change, and a third call must still give the first answer; distributions kept as given (normalize=False); the client also edits its own containers after handing them to the library. Rounds 8-9: history independence - every call is repeated on pristine twins of its arguments rebuilt from their provenance and must give the same answer; compositions (bind / replace_params / wrap, then evaluate) as operations; saves of operators and circuits; Dicke / zero states.",
}
for _pid, _t in EXTRA.items():
    CLAIMED[_pid]["text"] += _t

PENDING = {pid: "applicable (DESIGN.md §3) but its check is not built yet at this commit; not claimed until it is" for pid in
           ["C01", "C04", "C05", "C11", "C13", "C14", "C15", "C17", "C20"] if pid not in CLAIMED}

NOT_APPLICABLE = {
    "C02": "pure symbolic identity of closed-form gate matrices built afresh on each call; no state, schedule, I/O, randomness or peer for a simulator to control (DESIGN.md §4)",
    "C03": "Pauli arithmetic builds new value objects from table look-ups; a pure function of its inputs (DESIGN.md §4)",
    "C06": "bind/free_symbols return new frozen objects; composition of pure functions, no history or fault dimension (DESIGN.md §4)",
    "C07": "modifier matrices are pure functions of the wrapped gate (DESIGN.md §4)",
    "C08": "inverse/controlled/layer/ancilla constructions are deterministic functions of their arguments (DESIGN.md §4)",
    "C09": "operator<->matrix conversions are deterministic linear algebra on inputs (DESIGN.md §4)",
    "C10": "sample statistics are a pure function of the multiset of bitstrings; the only shared state (an lru_cache) is transparent for integer bits (DESIGN.md §4)",
    "C16": "time-evolution circuits are a pure construction from (term, time, steps) (DESIGN.md §4)",
    "C18": "decomposition is a pure rewrite of an operation list; nothing on the path holds state, fails or is nondeterministic (DESIGN.md §4)",
    "C19": "expression translation is a pure recursive function of the tree (DESIGN.md §4)",
}


def main():
    checks = []
    for pid in sorted(CLAIMED):
        c = CLAIMED[pid]
        checks.append({
            "property_id": pid,
            "quick_cmd": f"cd /verif && timeout 900 ./check {pid} --tier quick",
            "thorough_cmd": f"cd /verif && timeout 3000 ./check {pid} --tier thorough",
            "evidence_file": f"/verif/evidence/{pid}.json",
            "replay_cmd_template": f"cd /verif && ./check {pid} --replay {{path}}",
            "engine": "simkit",
            "level_claimed": {"category": "exploration", "text": c["text"], "design_ref": c["design_ref"]},
            "level_note": c["note"],
            "technique": c["technique"],
        })
    na = [{"property_id": k, "reason": v} for k, v in sorted({**NOT_APPLICABLE, **PENDING}.items())]
    manifest = {
        "version": 1,
        "setup_cmd": "cd /verif && /venv/bin/python tools/setup_check.py",
        "hooks": {
            "guard": "ORQUESTRA_QUANTUM_VERIF",
            "enable": "no hooks exist in /repo: every seam (module-global open / os / numpy names, numpy.random, plug-in base classes) is reached by injection from the harness process; checks import /repo/src directly (editable install), so they always run the current working tree",
            "baseline_off_cmd": "cd /repo && /venv/bin/python -m pytest -ra -q -p no:cacheprovider --timeout=900 --continue-on-collection-errors",
            "source_commits": [],
            "add_only": True,
        },
        "engines": [{
            "name": "simkit",
            "path": "/verif/dst/simkit",
            "serves_properties": sorted(CLAIMED),
            "kind_free_text": "deterministic simulation: seed -> explicit JSON plan (steps, per-step sub-seeds, fault annotations) -> single-process execution against the real library with simulated disk (SimFS), simulated RNG (SimRNG) and fake back-ends on the real base classes; reference-model oracles after every step, history checks at the end; every run in its own forked child of a warmed-up worker (a run is a pure function of plan and code); ddmin minimisation; replay files; hung runs classified (library hang = violation); determinism self-test (second process + fresh interpreter under another PYTHONHASHSEED); known findings with narrow keys",
        }],
        "checks": checks,
        "not_applicable": na,
        "notes": "All checks: exit 0 clean, 1 with 'VIOLATION property=<id> replay=<path>', 2 harness error/nondeterminism. VERIF_SEED selects the seed block (run seeds VERIF_SEED*1000003+i). Known findings and fixed defects: /verif/known_findings.json.",
    }
    with open(os.path.join(HERE, "MANIFEST.json"), "w") as f:
        json.dump(manifest, f, indent=1)
    print("wrote MANIFEST.json with", len(checks), "checks and", len(na), "not_applicable")


if __name__ == "__main__":
    main()
