#!/bin/bash
# usage: imp.sh C17
p=$1
cd /verif
for m in ${MS:-m19 m20}; do /venv/bin/python tools/seed_import.py $p /tmp/seed-$p/out $m 2>&1 | tail -2; done
git -C /repo worktree remove --force /tmp/seed-$p/wt 2>/dev/null; rm -rf /tmp/seed-$p/wt
