#!/bin/bash
# usage: sweep.sh "<pids>" "<seeds>" workers  -> one line per check run
cd /verif
for s in $2; do for p in $1; do
  out=$(VERIF_WORKERS=$3 timeout 900 ./check $p --tier quick --seed $s 2>&1)
  rc=$?
  echo "$p seed=$s rc=$rc $(echo "$out" | tail -1 | cut -c1-200)"
  if [ $rc -ne 0 ]; then echo "$out" | grep -i "violation\|harness" | head -5 | cut -c1-600; fi
done; done
