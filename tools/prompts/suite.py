#!/venv/bin/python
"""usage: /venv/bin/python /tmp/seed-tools/suite.py <worktree>
Runs the pinned test suite against <worktree>/src and reports whether every test of the baseline's
stable-pass list still passes (263 other tests fail in this environment anyway; they are ignored)."""
import json, os, subprocess, sys, tempfile
import xml.etree.ElementTree as ET
root = os.path.abspath(sys.argv[1])
xml = tempfile.mktemp(suffix=".xml", dir="/var/tmp")
env = dict(os.environ, PYTHONPATH=os.path.join(root, "src"), PYTHONDONTWRITEBYTECODE="1")
subprocess.run(["/venv/bin/python", "-m", "pytest", "-q", "-p", "no:cacheprovider", "--timeout=900", "--continue-on-collection-errors", f"--junitxml={xml}"], cwd=root, env=env, capture_output=True, text=True)
sp = set(json.load(open("/root/.vp/BASELINE.json"))["stable_pass"])
passed = set()
for tc in ET.parse(xml).iter("testcase"):
    if not any(ch.tag in ("failure", "error", "skipped") for ch in tc):
        passed.add(tc.get("classname") + "::" + tc.get("name"))
os.remove(xml)
broken = sorted(sp - passed)
print("SUITE OK: all", len(sp), "baseline-passing tests pass" if not broken else f"SUITE BROKEN: {len(broken)} baseline-passing tests no longer pass")
for b in broken[:20]:
    print("  ", b)
sys.exit(0 if not broken else 1)
