#!/bin/bash
# usage: xcheck.sh <seeded-id> <PID> [extra check args]  - run check PID against seeded change
id=$1; pid=$2; shift 2
wt=/var/tmp/oq-x-$id-$$
git -C /repo worktree add --detach $wt HEAD >/dev/null 2>&1
git -C $wt apply /verif/seeded/$id/patch.diff || { echo "patch failed"; exit 2; }
cd /verif; VERIF_REPO_ROOT=$wt VERIF_WORKERS=${VERIF_WORKERS:-6} ./check $pid --tier quick "$@" 2>&1 | grep -v "^KNOWN-FINDING" | tail -${TAILN:-4}
git -C /repo worktree remove --force $wt; rm -rf $wt
