#!/bin/bash
# usage: impb.sh <k> <ids...> : validate (apply + suite) and file benign changes
k=$1; shift
cd /verif
for id in "$@"; do
  wt=/var/tmp/oq-b-$id-$$
  git -C /repo worktree add --detach $wt HEAD >/dev/null 2>&1
  if git -C $wt apply /tmp/benign-$k/out/$id.diff; then
    if /venv/bin/python /tmp/seed-tools/suite.py $wt | head -1 | grep -q "SUITE OK"; then
      mkdir -p benign/$id; cp /tmp/benign-$k/out/$id.diff benign/$id/patch.diff; cp /tmp/benign-$k/out/$id.md benign/$id/notes.md; echo "$id FILED"
    else echo "$id SUITE BROKEN"; fi
  else echo "$id PATCH FAILED"; fi
  git -C /repo worktree remove --force $wt; rm -rf $wt
done
