#!/venv/bin/python
"""setup_cmd: nothing to build (pure Python); verify the interpreter can import what the checks need."""
import importlib
import sys

sys.path.insert(0, "/verif")
for m in ["numpy", "sympy", "scipy", "rapidjson", "orquestra.quantum.circuits", "orquestra.quantum.wavefunction",
          "dst.simkit.runner"]:
    importlib.import_module(m)
print("setup ok:", sys.version.split()[0])
