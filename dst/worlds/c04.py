"""C04 — every view of a simulated state agrees on which qubit is which.

Per step one circuit producing an asymmetric state is viewed through every channel of
one runner (state vector, exact distribution, sampled tuples / count strings in both
sampling regimes, sampled distribution, exact and measurement-based expectation values)
under a simulated RNG (real numpy generators seeded per step, or adversarial legal draws).
"""
import random
from collections import Counter

import numpy as np

from ..simkit import gen, refmodel
from ..simkit.backends import BackendFault, classes
from ..simkit.core import WallLimit, call, judge, clear_library_caches, time_limit
from ..simkit.simalloc import SimAlloc
from ..simkit.simrng import POLICIES, SimRNG

PID = "C04"
SINGLE = {"first", "last", "least", "most"}


class World:
    PID = PID
    TIERS = {
        "quick": {"runs": 1200, "budget_s": 50, "determinism_seeds": 8, "chunk": 15},
        "thorough": {"runs": 60000, "budget_s": 900, "determinism_seeds": 120, "chunk": 60},
    }
    RULE = ("one case = one seeded session of 'views' steps on shared simulators: each step takes one circuit (random numeric or a "
            "non-palindromic basis state) and compares all views of its final state; non-trivial = at least one step whose state is "
            "not symmetric under bit reversal was sampled in both regimes (fewer and more samples than basis states); distinct = "
            "distinct (op, outcome, fault) sequences")
    COMPONENTS = {
        "real": ["BaseWavefunctionSimulator.{get_wavefunction, run_and_measure, get_measurement_outcome_distribution, get_exact_expectation_values}",
                 "SymbolicSimulator", "sample_from_wavefunction (both branches)", "Wavefunction.get_probabilities/get_outcome_probs",
                 "utils.bitstring_to_tuple / tuple_to_bitstring (lru_cache cleared or warm)", "Measurements.get_counts/get_distribution/get_expectation_values",
                 "create_bitstring_distribution_from_probability_distribution", "operators.get_expectation_value / get_sparse_operator"],
        "stub": ["numpy generator: real PCG64 seeded from the step, or AdversarialChooser returning legal draws by policy",
                 "SplitSim native applier / predicate", "peer failure"],
        "model": ["state-vector model -> p = |amp|^2 with index(t) = sum t[q] 2^(n-1-q)", "Z-eigenvalue table"],
    }
    ASSUMPTIONS = [
        "a sampled outcome must have strictly positive probability in the code's own probability vector (floating point dust counts as non-zero); an outcome of exactly zero probability must never appear",
        "the code's probability vector must match the model's to 1e-9, which pins the amplitude order",
        "circuits use unitary numeric gates only; H is included",
        "0-qubit circuits are excluded here (recorded once under C14 as a known finding)",
    ]
    PROBES_EXPECTED = ["regime-few", "regime-many", "regime-boundary", "asymmetric-state", "basis-state", "adversarial-single-outcome",
                       "cross-regime-same-outcome", "exact-expectation", "measured-expectation", "cache-cleared", "user-seeded-runner",
                       "peer-fault", "sampled-distribution", "exact-distribution", "operator-object-reused", "register-wider-than-8",
                       "deficit-sampling-refused", "helper-results-edited", "parametric-state-vector"]

    def gen_plan(self, seed, tier):
        r = random.Random(seed)
        n = r.choice([1, 2, 2, 3, 3, 4])
        sims = [{"kind": "symbolic", "seed": r.choice([None, None, 11, 12345])}]
        if r.random() < 0.7:
            fam = r.choice(["all", "none", "gateop", "arity", "parity"])
            arg = {"arity": r.choice([1, 2]), "parity": r.choice([0, 1])}.get(fam)
            sims.append({"kind": "split", "family": fam, "arg": arg, "real_apply": r.random() < 0.5, "seed": r.choice([None, 5]),
                         "inplace": r.random() < 0.3})
        cfg = {"n": n, "sims": sims, "rng_mode": r.choice(["real", "adversarial", "adversarial"]), "rng_policy": r.choice(POLICIES),
               "cache_clear": r.choice([0.0, 0.3, 1.0]), "faults": r.choice(["none", "low", "low"]), "clients": r.randint(1, 2)}
        steps = []
        n_run = n
        wmin = max(1, n_run - 1)
        # operator OBJECTS that live as long as the run and are evaluated against circuits of different widths
        cfg["ops_pool"] = [gen.rand_pauli(r, wmin, r.randint(1, 3), ops="Z", constant=0.15, dup=0.1) for _ in range(2)]
        wide_at = r.randrange(3, 14) if r.random() < 0.08 else None
        for k_step in range(r.randint(3, 14)):
            n = r.choice([n_run, n_run, n_run, wmin])
            wide = k_step == wide_at
            if wide:
                n = r.choice([9, 9, 10, 11])   # registers wider than one byte of outcome bits (11: 2048 basis states)
            if wide or r.random() < 0.4:
                while True:
                    bits = [r.randint(0, 1) for _ in range(n)]
                    if wide:
                        bits = [1 if r.random() < 0.25 else 0 for _ in range(n)]
                    if n == 1 or bits != bits[::-1] or r.random() < 0.1:
                        break
                c = gen.basis_circuit(bits)
                kind = "basis"
                if wide and r.random() < 0.7:
                    # randomness on the LOWEST-numbered qubits of a register wider than a byte: shots then differ
                    # only in positions that 8-bit arithmetic on outcome codes would drop
                    for q in r.sample(range(n - 8), r.randint(1, n - 8)):
                        c["ops"].append({"gate": r.choice([{"g": "H"}, {"g": "RY", "p": [r.uniform(0.4, 2.6)]}]), "q": [q]})
                    kind = "wide-superposed"
            else:
                c = gen.rand_circuit(r, n, r.randint(1, 8), wrappers=0.2, powexp=False, custom=0.05, exclude=["U3", "MyNonUnitary"],
                                     phase_ops=0.1, max_arity=3, rich=False)
                c["n"] = n
                kind = "rand"
            N = 2 ** n
            small = r.choice([1, 2, max(1, N - 1), N]) if not wide else r.choice([1, 3])
            big = r.choice([N + 1, 3 * N, N + 7]) if not wide else N + r.choice([1, 40])
            op = gen.rand_pauli(r, n, r.randint(1, 4), ops="Z", constant=0.15, dup=0.1)
            if wide:
                # on a wide register: few-body terms (1-3 qubits anywhere in the register, also beyond qubit 7), more of them
                terms = []
                for _ in range(r.randint(3, 6)):
                    qs = r.sample(range(n), r.choice([1, 2, 2, 2, 3]))
                    terms.append({"ops": {str(q): "Z" for q in qs}, "c": r.choice([1.0, -1.0, 0.5, 2.0, -0.25])})
                op = {"kind": "sum", "terms": terms}
            s = {"op": "views", "args": {"sim": r.randrange(4) if not wide else 0, "c": c, "kind": kind, "small": small, "big": big, "operator": op,
                                         "op_ref": r.randrange(2) if r.random() < 0.4 else None,
                                         "bessel": r.random() < 0.3},
                 "client": r.randrange(cfg["clients"]), "rs": r.getrandbits(32)}
            if cfg["faults"] != "none" and r.random() < 0.3:
                s["fault"] = r.choice([{"kind": "peer", "at": r.randrange(0, 2), "view": r.choice(["run", "wf", "exact", "dist", "exact"])},
                                       {"kind": "peer", "at": 0, "view": r.choice(["exact", "wf", "dist"])},
                                       {"kind": "alloc", "at": r.randrange(0, 40)}])
            steps.append(s)
        if r.random() < 0.3:
            steps.insert(r.randrange(len(steps)), {"op": "helpers", "args": {"n": r.choice([n_run, n_run, max(1, n_run - 1)])},
                                                  "client": 0, "rs": r.getrandbits(32)})
        if r.random() < 0.15:
            nd = r.choice([1, 2, 2, 3])
            steps.insert(r.randrange(len(steps) + 1), {
                "op": "deficit", "args": {"n": nd, "d": r.uniform(2e-6, 8e-6), "state_seed": r.getrandbits(30),
                                          "samples": r.choice([2 ** nd + 1, 20000, 150000, 300000]), "seed": r.choice([None, 7]),
                                          "last_in_support": r.random() < 0.3},
                "client": 0, "rs": r.getrandbits(32)})
        if r.random() < 0.15:
            nd = r.choice([2, 3, 3, 4])
            while True:
                bits = [r.randint(0, 1) for _ in range(nd)]
                if bits != bits[::-1]:
                    break
            steps.insert(r.randrange(len(steps) + 1), {
                "op": "deficit", "args": {"bits": bits, "q": r.randrange(nd), "sim": r.randrange(4), "small": r.choice([1, 2, 2 ** nd]),
                                          "big": r.choice([2 ** nd + 1, 3 * 2 ** nd])},
                "client": 0, "rs": r.getrandbits(32)})
        if r.random() < 0.2:
            # a PARAMETRIC circuit: an asymmetric X pattern, then one or two gates whose parameters are free symbols, on
            # arbitrary ordered qubit tuples; its symbolic state vector, bound at a point, is one more view of the state
            ns = r.choice([2, 3, 3, 4, 4])
            while True:
                bits = [r.randint(0, 1) for _ in range(ns)]
                if ns == 1 or bits != bits[::-1]:
                    break
            c = gen.basis_circuit(bits)
            names = ["theta", "phi"]
            for _ in range(r.randint(1, 2)):
                g = gen.rand_gate(r, max_arity=min(3, ns), wrappers=0.4, depth=1, powexp=False, symbolic=1.0, symbols=names, custom=0.1,
                                  exclude=[g_ for g_, (_, npar) in gen.BUILTIN.items() if npar == 0] + ["U3", "RH", "MyFixed", "MyPerm3", "MyNonUnitary", "Delay"])
                k_ = gen.gate_arity(g)
                if k_ > ns:
                    continue
                c["ops"].append({"gate": g, "q": gen.rand_qubits(r, k_, ns)})
            steps.insert(r.randrange(len(steps) + 1), {
                "op": "symview", "args": {"c": c, "vals": {nm: r.uniform(0.3, 2.8) for nm in names}, "small": r.choice([1, 2, 2 ** ns]),
                                          "big": 2 ** ns + r.choice([1, 9])},
                "client": 0, "rs": r.getrandbits(32)})
        cfg["n"] = n_run
        return {"format": 1, "property": PID, "world": "runners", "seed": seed, "config": cfg, "steps": steps}

    def sample(self, plan):
        return {"seed": plan["seed"], "config": plan["config"], "n_steps": len(plan["steps"]),
                "steps": [{k: s[k] for k in ("op", "args", "fault") if k in s} for s in plan["steps"][:3]]}

    def init(self, ctx, plan):
        from orquestra.quantum import utils as umod
        from orquestra.quantum import wavefunction as wfmod
        from orquestra.quantum.runners.symbolic_simulator import SymbolicSimulator

        _, SplitSim, _ = classes()
        cfg = plan["config"]
        clear_library_caches()
        clear_library_caches()
        sims = []
        for s in cfg["sims"]:
            if s["kind"] == "symbolic":
                sims.append(SymbolicSimulator(seed=s["seed"]))
            else:
                sims.append(SplitSim(s["family"], s["arg"], s["real_apply"], seed=s["seed"]))
                # a back-end that evolves the buffer it is handed in place (every answer it returns is right); all calls of
                # this world start from the base class's own default state, never from a caller's array
                sims[-1].inplace = bool(s.get("inplace"))
                sims[-1].inplace_ok = True
        rng = SimRNG(cfg["rng_mode"], cfg["rng_policy"], ctx.probes).install()
        ops = [gen.build_pauli(o) for o in cfg.get("ops_pool", [])]
        return {"sims": sims, "rng": rng, "umod": umod, "both_regimes_asym": False, "ops": ops, "alloc": SimAlloc().install()}

    def cleanup(self, st):
        st["alloc"].restore()
        st["rng"].restore()

    def _do_deficit_runner(self, ctx, st, step, a):
        """The same situation reached through a runner: a custom gate typed in with six digits leaves a state that
        the Wavefunction class accepts and numpy's sampler refuses.  run_and_measure may fail; if it answers, the
        outcomes must be outcomes of THIS state, qubit for qubit (the state is asymmetric under bit reversal)."""
        bits, q = list(a["bits"]), a["q"]
        n = len(bits)
        spec = gen.basis_circuit(bits)
        spec["ops"].append({"gate": {"custom": "MyRoundedH"}, "q": [q]})
        circ = gen.build_circuit(spec)
        sim = st["sims"][a["sim"] % len(st["sims"])]
        st["rng"].begin_step(step["rs"])
        allowed = set()
        for b in (0, 1):
            t = list(bits)
            t[q] = b
            allowed.add(tuple(t))
        for ns in (a["small"], a["big"]):
            ok, res = call(sim.run_and_measure, circ, ns)
            ctx.called("run_and_measure[deficit]")
            if not ok:
                ctx.probe("deficit-sampling-refused")
                continue
            ctx.probe("deficit-sampling-answered")
            with judge(ctx):
                for t in res.bitstrings:
                    t = tuple(int(b) for b in t)
                    ctx.check(t in allowed, "refine", "zero-probability-outcome",
                              lambda: f"{type(sim).__name__} sampled {t} ({ns} shots) from X-pattern {bits} + six-digit Hadamard on qubit {q}: "
                                      f"only {sorted(allowed)} have non-zero probability")
        ctx.log("deficit", "runner", n=n)

    def _do_deficit(self, ctx, st, step, a):
        if "bits" in a:
            return self._do_deficit_runner(ctx, st, step, a)
        """A state the Wavefunction class accepts although its probabilities sum to 1 - d (d within the class's own
        tolerance), sampled MANY times.  The sampler may refuse it (numpy's choice does); if it answers, every outcome
        must still have non-zero exact probability - nothing may land where the amplitude is exactly zero."""
        from orquestra.quantum.wavefunction import Wavefunction, sample_from_wavefunction

        n = a["n"]
        N = 2 ** n
        rr = random.Random(a["state_seed"])
        support = sorted(rr.sample(range(N - 1), rr.randint(1, max(1, N // 2)))) if N > 1 else [0]
        if a.get("last_in_support"):
            support = sorted(set(support + [N - 1]))
        amps = np.zeros(N, dtype=complex)
        for i in support:
            amps[i] = complex(rr.gauss(0, 1), rr.gauss(0, 1))
        amps *= np.sqrt(1.0 - a["d"]) / np.linalg.norm(amps)
        ok, wf = call(Wavefunction, amps.copy())
        if not ok:
            ctx.log("deficit", "state-refused")
            return
        st["rng"].begin_step(step["rs"])
        ok, res = call(sample_from_wavefunction, wf, a["samples"], a.get("seed"))
        ctx.called("sample_from_wavefunction[deficit]")
        if not ok:
            ctx.probe("deficit-sampling-refused")
            ctx.log("deficit", "refused", exc=type(res).__name__)
            return
        ctx.probe("deficit-sampling-answered")
        with judge(ctx):
            ctx.check(len(res) == a["samples"], "refine", "sample-count", f"{len(res)} samples for {a['samples']} requested")
            seen = Counter(tuple(int(b) for b in t) for t in res)
            for t, k in seen.items():
                ctx.check(len(t) == n, "refine", "sample-length", f"outcome {t} for {n} qubits")
                i = sum(b << (n - 1 - q) for q, b in enumerate(t))
                ctx.check(abs(amps[i]) > 0, "refine", "zero-probability-outcome",
                          lambda: f"outcome {t} was sampled {k} time(s) out of {a['samples']} although its amplitude is exactly 0 "
                                  f"(state with total probability 1 - {a['d']:.2e}, support indices {support})")
        ctx.log("deficit", "ok", n=n, samples=a["samples"])

    def _do_symview(self, ctx, st, step, a):
        """State vector of a parametric circuit (symbolic), bound at a point, against the model at that point and
        against the other views of the same circuit bound beforehand."""
        import sympy

        ok, circ = call(gen.build_circuit, a["c"])
        if not ok:
            ctx.log("symview", "construct-failed")
            return
        n = circ.n_qubits
        N = 2 ** n
        vals = {sympy.Symbol(k): float(v) for k, v in a["vals"].items()}
        sim = st["sims"][0]   # the bundled simulator (plug-in back-ends are not required to take symbols)
        st["rng"].begin_step(step["rs"])

        def num(e):
            return complex(sympy.sympify(e).subs(vals).evalf())

        # model: every gate's own matrix at the point
        state = np.zeros(N, dtype=complex)
        state[0] = 1.0
        for o in circ.operations:
            okm, u = call(lambda: np.array([[num(x) for x in row] for row in sympy.Matrix(o.gate.matrix).tolist()], dtype=complex))
            if not okm:
                ctx.log("symview", "own-matrix-unavailable")
                return
            state = refmodel.apply_matrix(state, u, list(o.qubit_indices), n)
        p = np.abs(state) ** 2
        if abs(float(p.sum()) - 1) > 1e-9:
            ctx.log("symview", "non-unitary")
            return
        what = f"SymbolicSimulator on parametric {circ!r} at {a['vals']}"
        try:
            with time_limit(25):
                ok, wf = call(sim.get_wavefunction, circ)
        except WallLimit:
            ctx.probe("symbolic-simulation-skipped-slow")
            ctx.log("symview", "slow")
            return
        ctx.called("get_wavefunction[parametric]")
        ctx.check(ok, "unexpected-reject", "get_wavefunction-parametric", lambda: f"{what}: {type(wf).__name__}: {wf}")
        if not circ.free_symbols:
            ctx.log("symview", "no-symbols")
            return
        ctx.probe("parametric-state-vector")
        with judge(ctx):
            amps = np.array([num(e) for e in np.asarray(wf.amplitudes, dtype=object).reshape(-1)], dtype=complex)
            ctx.check(len(amps) == N, "refine", "probabilities-length", f"{what}: {len(amps)} amplitudes")
            err = float(np.max(np.abs(np.abs(amps) ** 2 - p)))
            ctx.check(err <= 1e-9, "refine", "state-vector-order:parametric",
                      f"{what}: probabilities of the symbolic state vector at the point differ from the model by {err:.2e}: {np.abs(amps) ** 2} vs {p}")
        # the library's own binding of the symbolic wavefunction is one more reader of the same vector
        okb, bwf = call(wf.bind, vals)
        if okb:
            with judge(ctx):
                pb = np.asarray(bwf.get_probabilities(), dtype=float).reshape(-1)
                ctx.check(float(np.max(np.abs(pb - p))) <= 1e-9, "refine", "state-vector-order:parametric-bound",
                          f"{what}: Wavefunction.bind(...) probabilities {pb} vs model {p}")
        else:
            ctx.probe("parametric-bind-refused")
        # the other views of the same circuit, bound beforehand
        okc, bc = call(circ.bind, vals)
        if not okc:
            ctx.probe("parametric-circuit-bind-refused")
            ctx.log("symview", "ok-no-bound-views")
            return
        oke, ed = call(sim.get_measurement_outcome_distribution, bc, None)
        ctx.check(oke, "unexpected-reject", "exact-distribution", lambda: f"{what} (bound): {type(ed).__name__}: {ed}")
        with judge(ctx):
            for k, v in ed.distribution_dict.items():
                ctx.check(len(k) == n and abs(v - p[refmodel.index_of(k)]) <= 1e-9, "refine", "exact-distribution-order",
                          f"{what}: exact distribution of the bound circuit gives {k} -> {v!r}, the parametric state vector at the point gives {p[refmodel.index_of(k)]!r}")
        # (as in the numeric views: floating-point dust counts as non-zero - an adversarial draw may legally pick it - so
        # sampled outcomes are judged against the code's own probability vector of the bound circuit, which in turn must
        # agree with the parametric state vector at the point)
        okw, bwf2 = call(sim.get_wavefunction, bc)
        ctx.check(okw, "unexpected-reject", "get_wavefunction", lambda: f"{what} (bound): {type(bwf2).__name__}: {bwf2}")
        with judge(ctx):
            pc = np.asarray(bwf2.get_probabilities(), dtype=float).reshape(-1)
            ctx.check(len(pc) == N and float(np.max(np.abs(pc - p))) <= 1e-9, "refine", "state-vector-order:parametric-vs-bound",
                      f"{what}: state of the circuit bound beforehand {pc} vs the parametric state vector at the point {p}")
        for ns in (a["small"], a["big"]):
            okr, meas = call(sim.run_and_measure, bc, ns)
            ctx.check(okr, "unexpected-reject", "run", lambda: f"{what} (bound): run_and_measure({ns}) raised {type(meas).__name__}: {meas}")
            with judge(ctx):
                for t in meas.bitstrings:
                    ctx.check(len(t) == n and pc[refmodel.index_of(t)] > 0.0, "refine", "zero-probability-outcome",
                              f"{what}: bound circuit sampled {tuple(t)} whose exact probability is {pc[refmodel.index_of(t)]!r}")
        ctx.nontrivial = True
        ctx.log("symview", "ok", n=n, n_ops=len(circ.operations))

    def _do_helpers(self, ctx, st, step, a):
        """Another client of the same process uses the library's public bit-order helpers and treats what they
        return as its own (reverses, clears, extends the lists / dicts).  None of that is the runners' business."""
        from orquestra.quantum import utils as U
        from orquestra.quantum.wavefunction import Wavefunction

        n = a["n"]
        for fn, args, edit in (
            (getattr(U, "get_ordered_list_of_bitstrings", None), (n,), lambda x: x.reverse()),
            (getattr(U, "convert_bitstrings_to_tuples", None), (["0" * n, "1" * n, "1" + "0" * (n - 1)],), lambda x: x.reverse()),
            (getattr(U, "convert_tuples_to_bitstrings", None), ([(0,) * n, (1,) + (0,) * (n - 1)],), lambda x: x.clear()),
            (lambda k: Wavefunction.zero_state(k).get_outcome_probs(), (n,), lambda x: x.clear()),
        ):
            if fn is None:
                continue
            ok, res = call(fn, *args)
            if ok and isinstance(res, (list, dict)):
                call(edit, res)
        ctx.probe("helper-results-edited")
        ctx.log("helpers", "ok", n=n)

    def step(self, ctx, st, step):
        if step["op"] == "deficit":
            return self._do_deficit(ctx, st, step, step["args"])
        if step["op"] == "helpers":
            return self._do_helpers(ctx, st, step, step["args"])
        if step["op"] == "symview":
            return self._do_symview(ctx, st, step, step["args"])
        a = step["args"]
        cfg = ctx.config
        si = a["sim"] % len(st["sims"])
        sim = st["sims"][si]
        if getattr(sim, "seed", None) is not None:
            ctx.probe("user-seeded-runner")
        circ = gen.build_circuit(a["c"])
        n = circ.n_qubits
        N = 2 ** n
        op_spec, op_obj = a["operator"], None
        if a.get("op_ref") is not None and st["ops"]:
            k_op = a["op_ref"] % len(st["ops"])
            op_spec, op_obj = cfg["ops_pool"][k_op], st["ops"][k_op]   # the same object as in earlier steps
            ctx.probe("operator-object-reused")
        if n > 8:
            ctx.probe("register-wider-than-8")
        if ctx.rng(step).random() < cfg.get("cache_clear", 0):
            clear_library_caches()
            ctx.probe("cache-cleared")
        st["rng"].begin_step(step["rs"])
        deleg0 = sum(v for k_, v in ctx.probes.items() if k_.startswith("rng-delegated-"))
        adv0 = sum(v for k_, v in ctx.probes.items() if k_.startswith("rng-adversarial-"))
        # model
        ok, state = call(refmodel.run_circuit, circ.operations, n)
        if not ok:
            ctx.log("views", "model-unavailable")
            return
        p = np.abs(state) ** 2
        if float(abs(p.sum() - 1)) > 1e-9:
            ctx.log("views", "non-unitary")
            return
        asym = any(abs(p[i] - p[int(format(i, f"0{n}b")[::-1], 2)]) > 1e-6 for i in range(N))
        if asym:
            ctx.probe("asymmetric-state")
        if a["kind"] == "basis":
            ctx.probe("basis-state")
        fault = step.get("fault")
        is_split = hasattr(sim, "native_calls")
        if fault and is_split and fault.get("kind") == "peer":
            # the peer fails inside one of the calls; that call reports it, and every view taken afterwards (the request
            # is simply repeated below) must be as right as if the failure had never happened
            sim.arm(fault["at"])
            view = fault.get("view", "run")
            if view == "wf":
                ok, res = call(sim.get_wavefunction, circ)
            elif view == "exact":
                ok, res = call(sim.get_exact_expectation_values, circ, op_obj if op_obj is not None else gen.build_pauli(op_spec))
            elif view == "dist":
                ok, res = call(sim.get_measurement_outcome_distribution, circ, None)
            else:
                ok, res = call(sim.run_and_measure, circ, a["small"])
            sim.arm(None)
            if not ok and isinstance(res, BackendFault):
                ctx.fault("peer-fault")
                ctx.probe("peer-fault")
                ctx.log("views", "peer-fault")
                return
            ctx.check(ok, "unexpected-reject", "run", lambda: f"run_and_measure raised {type(res).__name__}: {res}")
        if fault and fault.get("kind") == "alloc":
            # a call that dies of a failed allocation somewhere inside the library; every view taken afterwards
            # (below) must be as right as if it had never happened
            st["alloc"].begin_call(fault)
            ok, res = call(sim.run_and_measure, circ, a["big"] if fault["at"] % 2 else a["small"])
            if st["alloc"].end_call():
                ctx.fault("alloc-fault")
                ctx.probe("alloc-fault" if not ok else "alloc-fault-survived")
        what = f"{type(sim).__name__}[{cfg['sims'][si]}] on {circ!r}"
        # 1. state vector
        ok, wf = call(sim.get_wavefunction, circ)
        ctx.called("get_wavefunction")
        ctx.check(ok, "unexpected-reject", "get_wavefunction", lambda: f"{what}: {type(wf).__name__}: {wf}")
        with judge(ctx):
            pc = np.asarray(wf.get_probabilities(), dtype=float).reshape(-1)
            ctx.check(len(pc) == N, "refine", "probabilities-length", f"{what}: {len(pc)} probabilities")
            err = float(np.max(np.abs(pc - p)))
            ctx.check(err <= 1e-9, "refine", "state-vector-order", f"{what}: probabilities differ from model by {err:.2e}: {pc} vs {p}")
        # 2. exact distribution
        ok, ed = call(sim.get_measurement_outcome_distribution, circ, None)
        ctx.called("get_measurement_outcome_distribution(None)")
        ctx.check(ok, "unexpected-reject", "exact-distribution", lambda: f"{what}: {type(ed).__name__}: {ed}")
        with judge(ctx):
            d = ed.distribution_dict
            ctx.check(len(d) == N, "refine", "exact-distribution-size", f"{what}: {len(d)} keys")
            for k, v in d.items():
                ctx.check(len(k) == n, "refine", "exact-distribution-key-length", f"key {k}")
                ctx.check(abs(v - p[refmodel.index_of(k)]) <= 1e-9, "refine", "exact-distribution-order",
                          f"{what}: exact distribution gives {k} -> {v!r}, model p[{refmodel.index_of(k)}] = {p[refmodel.index_of(k)]!r}")
        ctx.probe("exact-distribution")
        # 3. sampling, both regimes
        outcomes = {}
        for label, ns in (("small", a["small"]), ("big", a["big"])):
            ok, meas = call(sim.run_and_measure, circ, ns)
            ctx.called("run_and_measure")
            ctx.check(ok, "unexpected-reject", "run", lambda: f"{what}: run_and_measure({ns}) raised {type(meas).__name__}: {meas}")
            ctx.probe("regime-many" if N < ns else "regime-few")
            if ns in (N - 1, N, N + 1):
                ctx.probe("regime-boundary")
            with judge(ctx):
                bs = meas.bitstrings
                ctx.check(len(bs) == ns, "refine", "shot-count", f"{what}: {len(bs)} shots for {ns}")
                for t in bs:
                    ctx.check(len(t) == n, "refine", "tuple-length", f"{what}: outcome {tuple(t)} for {n} qubits (n_samples={ns})")
                    ctx.check(all(int(b) in (0, 1) for b in t), "refine", "tuple-content", f"{what}: outcome {tuple(t)}")
                    pi = pc[refmodel.index_of(t)]
                    ctx.check(pi > 0.0, "refine", "zero-probability-outcome",
                              f"{what}: sampled {tuple(t)} (n_samples={ns}, regime {'many' if N < ns else 'few'}) whose exact probability is {pi!r}; p={pc}")
                counts = meas.get_counts()
                want = Counter("".join(str(int(b)) for b in t) for t in bs)
                ctx.check(counts == dict(want), "refine", "count-strings", f"{what}: get_counts() {counts} != tuples rendered position by position {dict(want)}")
                outcomes[label] = [tuple(int(b) for b in t) for t in bs]
                # measurement-based expectation: same numbering between tuple positions and operator indices
                op = op_obj if op_obj is not None else gen.build_pauli(op_spec)
                okx, ev = call(meas.get_expectation_values, op, a["bessel"] and ns > 1)
                ctx.called("Measurements.get_expectation_values")
                ctx.check(okx, "unexpected-reject", "measured-expectation", lambda: f"{type(ev).__name__}: {ev}")
                terms = gen.pauli_terms_of(op_spec)
                vals = np.asarray(ev.values).reshape(-1)
                ctx.check(len(vals) == len(terms), "refine", "measured-expectation-length", f"{len(vals)} values for {len(terms)} terms")
                for j, (coef, ops) in enumerate(terms):
                    mean = sum(refmodel.z_eigenvalue(t, list(ops)) for t in outcomes[label]) / len(bs)
                    ctx.check(abs(vals[j] - coef * mean) <= 1e-9, "refine", "measured-expectation",
                              f"{what}: term {j} ({coef}*Z{sorted(ops)}) estimated {vals[j]!r}, shots give {coef * mean!r}")
                ctx.probe("measured-expectation")
        if asym:
            st["both_regimes_asym"] = True
            ctx.nontrivial = True
        deleg = sum(v for k_, v in ctx.probes.items() if k_.startswith("rng-delegated-")) - deleg0
        adv = sum(v for k_, v in ctx.probes.items() if k_.startswith("rng-adversarial-")) - adv0
        if cfg["rng_mode"] == "adversarial" and cfg["rng_policy"] in SINGLE and (deleg or adv < 2):
            # the sampler drew (some of) its numbers through generator methods the adversary does not own: the
            # "same single outcome in both regimes" consequence only follows when every draw was the adversary's
            ctx.probe("cross-regime-check-skipped-other-sampler")
        elif cfg["rng_mode"] == "adversarial" and cfg["rng_policy"] in SINGLE:
            ctx.probe("adversarial-single-outcome")
            s_set, b_set = set(outcomes["small"]), set(outcomes["big"])
            ctx.check(len(s_set) == 1 and s_set == b_set, "refine", "regimes-disagree",
                      f"{what}: policy {cfg['rng_policy']} drew {s_set} with {a['small']} samples but {b_set} with {a['big']} samples")
            ctx.probe("cross-regime-same-outcome")
        # 4. sampled distribution
        ok, sd = call(sim.get_measurement_outcome_distribution, circ, a["big"])
        ctx.check(ok, "unexpected-reject", "sampled-distribution", lambda: f"{type(sd).__name__}: {sd}")
        with judge(ctx):
            for k, v in sd.distribution_dict.items():
                ctx.check(len(k) == n, "refine", "tuple-length", f"sampled distribution key {k}")
                if v > 0:
                    ctx.check(pc[refmodel.index_of(k)] > 0.0, "refine", "zero-probability-outcome", f"{what}: sampled distribution has {k}: {v} with exact probability 0")
        ctx.probe("sampled-distribution")
        # 5. exact expectation of a Z-type operator
        op = op_obj if op_obj is not None else gen.build_pauli(op_spec)
        ok, ex = call(sim.get_exact_expectation_values, circ, op)
        ctx.called("get_exact_expectation_values")
        ctx.check(ok, "unexpected-reject", "exact-expectation", lambda: f"{what}: {type(ex).__name__}: {ex}")
        with judge(ctx):
            want = sum(coef.real * sum(p[i] * refmodel.z_eigenvalue(refmodel.bits_of(i, n), list(ops)) for i in range(N))
                       for coef, ops in gen.pauli_terms_of(op_spec))
            ctx.check(abs(float(ex) - want) <= 1e-9, "refine", "exact-expectation",
                      f"{what}: exact <{op}> = {ex!r}, eigenvalue average under the exact distribution = {want!r}")
        ctx.probe("exact-expectation")
        ctx.log("views", "ok", _sig=f"{si}/{a['kind']}/{n}/{a['small']}/{a['big']}/{int(asym)}/{len(circ.operations)}",
                sim=si, n=n, kind=a["kind"], small=a["small"], big=a["big"])

    def shrink_step(self, s):
        a = s["args"]
        if s["op"] == "deficit":
            if "n" in a and a["n"] > 1:
                yield {**s, "args": {**a, "n": a["n"] - 1}}
            return
        if s["op"] == "helpers":
            return
        if s["op"] == "symview":
            ops = a["c"]["ops"]
            for i in range(len(ops)):
                yield {**s, "args": {**a, "c": {**a["c"], "ops": ops[:i] + ops[i + 1:]}}}
            return
        ops = a["c"]["ops"]
        for i in range(len(ops)):
            yield {**s, "args": {**a, "c": {**a["c"], "ops": ops[:i] + ops[i + 1:]}}}
        terms = a["operator"]["terms"]
        if len(terms) > 1:
            for i in range(len(terms)):
                yield {**s, "args": {**a, "operator": {**a["operator"], "terms": terms[:i] + terms[i + 1:]}}}


WORLD = World()
