"""C13 — splitting, batching and recombining shots never loses or invents a shot.

Pipelines expand -> run -> combine and split -> run around a shot back-end peer that may
over-deliver or fail, with a per-circuit shot ledger (every circuit prepares its own
basis state, so each shot is attributable); distribution-representing measurements under
a simulated/adversarial RNG; scale-and-discretise.
"""
import copy
import random
import sys

import numpy as np
from collections import Counter

from ..simkit import gen
from ..simkit.backends import BackendFault, classes
from ..simkit.core import call, judge, clear_library_caches
from ..simkit.simrng import POLICIES, SimRNG

PID = "C13"


class ForeignCircuit(list):
    """A circuit of some other SDK: only its identity matters to the batching helpers."""

    __hash__ = object.__hash__

    def __eq__(self, other):
        return self is other


class World:
    PID = PID
    WATCHDOG_S = 60  # a run of this world takes well under a second; beyond this it is a hang
    TIERS = {
        "quick": {"runs": 8000, "budget_s": 50, "determinism_seeds": 8, "chunk": 50},
        "thorough": {"runs": 300000, "budget_s": 900, "determinism_seeds": 200, "chunk": 300},
    }
    RULE = ("one case = one seeded session of pipeline steps (expand->run->combine, split->run), represent-distribution steps and "
            "discretise steps; requests are biased to arithmetic boundaries (n % max == 0, max == 1, n == 1, n == max +- 1, single "
            "circuit, ties); non-trivial = at least one pipeline with a circuit split into >= 2 copies or >= 2 batches, or a represent "
            "step that needed top-up/elimination; distinct = distinct (op, outcome, shape, fault) sequences")
    COMPONENTS = {
        "real": ["expand_sample_sizes", "split_into_batches", "combine_measurement_counts", "combine_bitstrings",
                 "Measurements.get_measurements_representing_distribution (+ _check_sample_elimination, sample_from_probability_distribution)",
                 "scale_and_discretize", "BaseCircuitRunner validation / fan-out", "Measurements.get_counts"],
        "stub": ["ShotBackend peer (exact basis outcomes, over-delivery, scheduled failure)", "numpy.random.choice: real RandomState seeded per step or adversarial legal draws"],
        "model": ["shot ledger (requested vs delivered per original circuit)", "support of the source distribution", "proportional shares"],
    }
    ASSUMPTIONS = [
        "weights and totals for scale_and_discretize are positive and totals <= 10^6 so that shares are exactly representable to well below 1",
        "the arithmetic helpers are pure; they are covered because the pipelines run through them, with boundary-biased requests rather than an exhaustive sweep",
    ]
    PROBES_EXPECTED = ["expand-multi-copy", "expand-exact-multiple", "expand-max-1", "batches-multi", "batch-uneven-last", "over-delivery",
                       "peer-fault", "represent-topup", "represent-eliminate", "represent-exact", "discretise", "discretise-container-reused", "combine-counts", "combine-bitstrings",
                       "single-circuit", "adversarial-rng", "combine-aliased-records", "foreign-circuits", "represent-eliminate-many", "represent-numpy-shot-number"]

    def gen_plan(self, seed, tier):
        r = random.Random(seed)
        n = r.choice([1, 2, 3, 4])
        cfg = {"n": n, "extra": r.choice([0, 0, 1, 3]), "rng_mode": r.choice(["real", "adversarial", "adversarial"]),
               "rng_policy": r.choice(POLICIES), "faults": r.choice(["none", "none", "low"]), "clients": r.randint(1, 2)}
        steps = []

        def shots_for(mx):
            k = r.random()
            if k < 0.2:
                return mx * r.randint(1, 4)
            if k < 0.35:
                return max(1, mx * r.randint(1, 3) + r.choice([-1, 1]))
            if k < 0.45:
                return 1
            return r.randint(1, 60)

        for _ in range(r.randint(3, 12)):
            op = r.choices(["expand", "batches", "represent", "discretise"], [4, 3, 4, 2])[0]
            if op in ("expand", "batches"):
                k = r.choice([1, 1, 2, 3, 5, 7])
                mx = r.choice([1, 2, 3, 5, 10, 16, 100])
                circs = [[r.randint(0, 1) for _ in range(n)] for _ in range(k)]
                prev_req = [x["args"] for x in steps if x["op"] == op]
                if prev_req and r.random() < 0.3:
                    # the same request once more (other circuits, same numbers): nothing an earlier call returned - and
                    # the client has meanwhile used up - may leak into this answer
                    p0 = r.choice(prev_req)
                    k, mx_shots = len(p0["shots"]), list(p0["shots"])
                    circs = [[r.randint(0, 1) for _ in range(n)] for _ in range(k)]
                else:
                    mx_shots = None
                a = {"circs": circs, "shots": mx_shots or [shots_for(mx) for _ in range(k)],
                     "max": (p0["max"] if mx_shots else (mx if op == "expand" else r.choice([1, 2, 3, 4, 10, 0, -1]))),
                     "foreign": ([r.randint(0, 3) for _ in range(k)] if r.random() < 0.5 else [r.randint(1, 3)] * k) if r.random() < 0.25 else None,
                     "foreign_kind": r.choice(["seq", "seq", "tuple"]),
                     "via": r.choice(["counts", "bitstrings"]), "batchrun": r.random() < 0.5, "memo": r.random() < 0.35,
                     "nptype": r.choice([None, None, None, None, "i64", "i32", "i16"]), "huge_max": r.random() < 0.3}
                s = {"op": op, "args": a}
                if cfg["faults"] != "none" and r.random() < 0.15:
                    s["fault"] = {"kind": "peer", "at": r.randrange(0, 5)}
            elif op == "represent":
                m = r.randint(1, min(2 ** n, r.choice([6, 6, 12])))
                keys = r.sample(range(2 ** n), m)
                prev = [x["args"]["keys"] for x in steps if x["op"] == "represent"]
                if prev and r.random() < 0.4:
                    keys = list(r.choice(prev))   # the same outcomes in the same order, other weights (also zeros)
                    m = len(keys)
                style = r.choice(["rand", "uniform", "halves", "tiny", "zeros", "overshoot", "overshoot", "overshoot", "overshoot"])
                ws = []
                n_over = None
                if style == "overshoot" and m >= 4:
                    # p_i * N = c_i exactly: many x.5 shares (rounded up -> several shots too many) next to shares
                    # below 0.5 (rounded to zero shots, yet eligible when the surplus is drawn for elimination)
                    small = r.randint(2, max(2, m // 2))
                    cs = [r.choice([0.5, 1.5, 1.5, 2.5, 3.5, 1.5, 3.5]) for _ in range(m - small)]
                    rest = sum(cs) % 1
                    tail = [0.25] * small
                    tail[0] += (1 - (rest + 0.25 * small) % 1) % 1
                    cs += tail
                    r.shuffle(cs)
                    ws = cs
                    n_over = int(round(sum(cs)))
                for i in range(m if not ws else 0):
                    if style == "rand":
                        ws.append(r.random() + 0.01)
                    elif style == "uniform":
                        ws.append(1.0)
                    elif style == "halves":
                        ws.append(r.choice([0.5, 1.5, 2.5, 1.0]))
                    elif style == "tiny":
                        ws.append(r.choice([1e-6, 1.0, 1e-3]))
                    else:
                        ws.append(r.choice([0.0, 1.0, 2.0]))
                if all(w == 0 for w in ws):
                    ws[0] = 1.0
                s = {"op": "represent", "args": {"keys": keys, "weights": ws, "N": n_over or r.choice([1, 2, 3, 5, 10, 33, 100, 257]),
                                                 "keystyle": r.choice(["tuple", "str"]), "f32": r.random() < 0.12,
                                                 "Ntype": r.choice([None, None, None, "i64", "i32"])}}
                if r.random() < 0.12:
                    # subsystems with more than two levels (outcome values up to 12): tuple keys only
                    lv = set()
                    while len(lv) < len(keys):
                        lv.add(tuple(r.choice([0, 1, 2, 3, 9, 10, 12]) for _ in range(max(1, n))))
                    s["args"]["mkeys"] = [list(k_) for k_ in sorted(lv)]
                    s["args"]["keystyle"] = "tuple"
            else:
                m = r.randint(1, 8)
                ws = [r.choice([1, 2, 3, 0.5, 1.5, 1 / 3, r.uniform(0.01, 10)]) for _ in range(m)]
                if r.random() < 0.3:
                    ws = [1.0] * m
                total = r.choice([1, 2, 3, 7, 10, 100, 1000, 12345, m, m + 1, max(1, m - 1)])
                if r.random() < 0.25:
                    # fractional weights that already sum exactly to the total
                    ws = [r.choice([0.5, 1.5, 2.5, 0.25, 0.75, 1.0]) for _ in range(m)]
                    ws.append((-sum(ws)) % 1 or 1.0)
                    total = int(round(sum(ws)))
                # the weights live in a caller-owned container (list / tuple / numpy array) that the same client may hand
                # to several calls with different totals: every call must be answered from the ORIGINAL weights
                s = {"op": "discretise", "args": {"weights": ws, "total": total, "as": r.choice(["list", "list", "tuple", "f64", "f64", "i64"]),
                                                  "slot": r.randrange(3), "reuse": r.random() < 0.6}}
            s["client"] = r.randrange(cfg["clients"])
            s["rs"] = r.getrandbits(32)
            steps.append(s)
        return {"format": 1, "property": PID, "world": "runners", "seed": seed, "config": cfg, "steps": steps}

    def sample(self, plan):
        return {"seed": plan["seed"], "config": plan["config"], "n_steps": len(plan["steps"]),
                "steps": [{k: s[k] for k in ("op", "args", "fault") if k in s} for s in plan["steps"][:4]]}

    def init(self, ctx, plan):
        from orquestra.quantum import utils as umod

        ShotBackend, _, _ = classes()
        cfg = plan["config"]
        clear_library_caches()
        rng = SimRNG(cfg["rng_mode"], cfg["rng_policy"], ctx.probes).install()
        if cfg["rng_mode"] == "adversarial":
            ctx.probe("adversarial-rng")
        return {"rng": rng, "backend": ShotBackend(extra=cfg["extra"])}

    def cleanup(self, st):
        st["rng"].restore()

    def step(self, ctx, st, step):
        st["rng"].begin_step(step["rs"])
        getattr(self, "_do_" + step["op"])(ctx, st, step, step["args"])

    # ------------------------------------------------------------------
    def _do_expand(self, ctx, st, step, a):
        from orquestra.quantum.circuits import combine_bitstrings, combine_measurement_counts, expand_sample_sizes
        from orquestra.quantum.utils import convert_tuples_to_bitstrings

        be = st["backend"]
        circs = [gen.build_circuit(gen.basis_circuit(b)) for b in a["circs"]]
        shots, mx = list(a["shots"]), a["max"]
        npt = a.get("nptype")
        if npt:
            # sample counts as numpy integers of a fixed width (what list(np.array(...)) gives), possibly with an
            # "unlimited" maximum
            dt = {"i64": np.int64, "i32": np.int32, "i16": np.int16}[npt]
            if a.get("huge_max") and npt == "i64":
                mx = sys.maxsize
            # (numpy refuses mixed arithmetic with a Python int outside the dtype's range: keep the maximum inside it)
            if all(0 < x <= np.iinfo(dt).max for x in shots) and 0 < mx <= np.iinfo(dt).max:
                shots = [dt(x) for x in shots]
                ctx.probe("numpy-integer-counts")
        foreign = a.get("foreign")
        if foreign:
            # circuits of another SDK (the helpers are generic over the circuit type): sized sequences of instructions, or
            # plain tuples of them; what comes back must be THOSE objects
            if a.get("foreign_kind") == "tuple":
                circs = [tuple(("op", i, j) for j in range(k_)) for i, k_ in enumerate(foreign)]
            else:
                circs = [ForeignCircuit([("op", i, j) for j in range(k_)]) for i, k_ in enumerate(foreign)]
            ctx.probe("foreign-circuits")
        if len(circs) == 1:
            ctx.probe("single-circuit")
        ok, res = call(expand_sample_sizes, circs, shots, mx)
        ctx.called("expand_sample_sizes")
        ctx.check(ok, "unexpected-reject", "expand", lambda: f"expand_sample_sizes({shots}, max={mx}) raised {type(res).__name__}: {res}")
        with judge(ctx):
            new_c, new_n, mult = res
            new_c, new_n, mult = list(new_c), list(new_n), list(mult)
            ctx.check(len(mult) == len(circs), "conservation", "multiplicities-length", f"{len(mult)} multiplicities for {len(circs)} circuits")
            ctx.check(len(new_c) == len(new_n) == sum(mult), "conservation", "expanded-lengths", f"{len(new_c)} circuits, {len(new_n)} sizes, multiplicities {mult}")
            pos = 0
            for i, (c, want, m) in enumerate(zip(circs, shots, mult)):
                ctx.check(m >= 1, "conservation", "multiplicity-zero", f"circuit {i}: multiplicity {m}")
                part = new_n[pos:pos + m]
                ctx.check(all(x is c for x in new_c[pos:pos + m]), "order", "expanded-circuit-order", f"copies of circuit {i} are not in place")
                ctx.check(all(isinstance(x, (int, np.integer)) and not isinstance(x, bool) and 1 <= x <= mx for x in part), "conservation", "copy-size-out-of-range", f"circuit {i}: copy sizes {part} with max {mx}")
                ctx.check(sum(part) == want, "conservation", "expanded-sum", f"circuit {i}: copies {part} sum to {sum(part)}, requested {want} (max {mx})")
                pos += m
                if m >= 2:
                    ctx.probe("expand-multi-copy")
                    ctx.nontrivial = True
                if want % mx == 0:
                    ctx.probe("expand-exact-multiple")
            if mx == 1:
                ctx.probe("expand-max-1")
        if foreign:
            ctx.log("expand", "ok-foreign", _sig=f"{len(circs)}/{mx}")
            return   # nothing here can run them
        # the client works through what it was given as a queue (pops entries off the returned containers)
        for part in (res[1], res[2]) if ok and isinstance(res, tuple) and len(res) == 3 else ():
            if isinstance(part, list) and part:
                part.pop()
                part.reverse()
                ctx.probe("expand-result-consumed")
        # run the copies through the peer
        f = step.get("fault")
        be.arm(step["rs"], f["at"] if f else None)
        if a["batchrun"]:
            ok, ms = call(be.run_batch_and_measure, new_c, new_n)
        else:
            ok, ms = call(lambda: [be.run_and_measure(c, k) for c, k in zip(new_c, new_n)])
        be.fail_at = None
        if not ok and isinstance(ms, BackendFault):
            ctx.fault("peer-fault")
            ctx.probe("peer-fault")
            ctx.log("expand", "peer-fault", _sig=f"{len(circs)}/{mx}")
            return
        ctx.check(ok, "unexpected-reject", "run-copies", lambda: f"running expanded copies raised {type(ms).__name__}: {ms}")
        delivered = [len(m.bitstrings) for m in ms]
        if any(d > k for d, k in zip(delivered, new_n)):
            ctx.probe("over-delivery")
        # per-copy records handed to combine_*; a memoising caller (legal: identical copies of a deterministic
        # circuit give identical records) hands the *same* object for identical copies
        memo = {}

        def record(c, k, m):
            rec = m.get_counts() if a["via"] == "counts" else convert_tuples_to_bitstrings(m.bitstrings)
            if a.get("memo"):
                return memo.setdefault((id(c), k, len(m.bitstrings)), rec)
            return rec

        per_copy = [record(c, k, m) for c, k, m in zip(new_c, new_n, ms)]
        if a.get("memo") and len({id(x) for x in per_copy}) < len(per_copy):
            ctx.probe("combine-aliased-records")
        before = copy.deepcopy(per_copy)
        fn = combine_measurement_counts if a["via"] == "counts" else combine_bitstrings
        ctx.probe("combine-counts" if a["via"] == "counts" else "combine-bitstrings")
        ok, comb = call(fn, per_copy, mult)
        ctx.called("combine_*")
        ctx.check(ok, "unexpected-reject", "combine", lambda: f"combine raised {type(comb).__name__}: {comb}")
        ctx.check(per_copy == before, "conservation", "combine-changed-its-input",
                  lambda: f"combining changed the per-copy records it was given: {before} -> {per_copy} (multiplicities {mult})")
        ok2, comb2 = call(fn, per_copy, mult)
        ctx.check(ok2 and [dict(Counter(x)) if a["via"] != "counts" else dict(x) for x in comb2]
                  == [dict(Counter(x)) if a["via"] != "counts" else dict(x) for x in comb], "conservation", "combine-not-repeatable",
                  lambda: f"combining the same records twice gave {comb} and then {comb2}")
        with judge(ctx):
            ctx.check(len(comb) == len(circs), "conservation", "combined-length", f"{len(comb)} combined results for {len(circs)} circuits")
            pos = 0
            for i, (bits, want, m) in enumerate(zip(a["circs"], shots, mult)):
                got = comb[i]
                counts = dict(got) if a["via"] == "counts" else dict(Counter(got))
                total = sum(counts.values())
                deliv = sum(delivered[pos:pos + m])
                pos += m
                key = "".join(map(str, bits))
                ctx.check(total == deliv, "conservation", "combined-total", f"circuit {i}: combined {total} shots, the peer delivered {deliv} (requested {want})")
                ctx.check(total >= want, "conservation", "fewer-than-requested", f"circuit {i}: combined {total} < requested {want}")
                if st["backend"].extra == 0:
                    ctx.check(total == want, "conservation", "total-not-requested", f"circuit {i}: combined {total} != requested {want}")
                ctx.check(set(counts) <= {key}, "conservation", "foreign-shot", f"circuit {i} (state {key}) got shots {counts}")
        ctx.log("expand", "ok", _sig=f"{len(circs)}/{mx}/{a['via']}/{sum(mult)}")

    def _do_batches(self, ctx, st, step, a):
        from orquestra.quantum.circuits import split_into_batches

        be = st["backend"]
        foreign = a.get("foreign")
        if foreign:
            # "the exact type of the circuits does not matter": another SDK's circuit, here a sized sequence of
            # instructions (an empty one - e.g. for an identity term - is falsy)
            circs = [ForeignCircuit(["op"] * k) for k in foreign]
            ctx.probe("foreign-circuits")
        else:
            circs = [gen.build_circuit(gen.basis_circuit(b)) for b in a["circs"]]
        shots, mb = list(a["shots"]), a["max"]
        ok, res = call(lambda: list(split_into_batches(circs, shots, mb)))
        ctx.called("split_into_batches")
        if mb <= 0:
            ctx.check(not ok, "unexpected-accept", "batch-size", f"max_batch_size={mb} accepted")
            ctx.log("batches", "rejected")
            return
        ctx.check(ok, "unexpected-reject", "batches", lambda: f"split_into_batches raised {type(res).__name__}: {res}")
        with judge(ctx):
            flat = []
            for chunk, nb in res:
                chunk = list(chunk)
                ctx.check(1 <= len(chunk) <= mb, "conservation", "batch-size", f"batch of {len(chunk)} with max {mb}")
                idx = list(range(len(flat), len(flat) + len(chunk)))
                flat.extend(chunk)
                ctx.check(all(i < len(shots) for i in idx), "conservation", "batch-cover", "batches hold more circuits than submitted")
                need = [shots[i] for i in idx]
                ctx.check(all(nb >= k for k in need), "conservation", "batch-samples-too-few", f"batch requests {nb}, members asked {need}")
            ctx.check(len(flat) == len(circs) and all(x is y for x, y in zip(flat, circs)), "order", "batch-cover",
                      f"batches cover {len(flat)} circuits (submitted {len(circs)}) or change their order")
            if len(res) >= 2:
                ctx.probe("batches-multi")
                ctx.nontrivial = True
                if len(list(res[-1][0])) < mb:
                    ctx.probe("batch-uneven-last")
        if foreign:
            ctx.log("batches", "ok-foreign", _sig=f"{len(circs)}/{mb}")
            return
        # run every batch through the peer
        f = step.get("fault")
        be.arm(step["rs"], f["at"] if f else None)
        pos = 0
        for chunk, nb in res:
            chunk = list(chunk)
            ok, ms = call(be.run_batch_and_measure, chunk, nb)
            if not ok and isinstance(ms, BackendFault):
                be.fail_at = None
                ctx.fault("peer-fault")
                ctx.probe("peer-fault")
                ctx.log("batches", "peer-fault")
                return
            ctx.check(ok, "unexpected-reject", "run-batch", lambda: f"run_batch_and_measure({len(chunk)} circuits, {nb}) raised {type(ms).__name__}: {ms}")
            with judge(ctx):
                ctx.check(len(ms) == len(chunk), "conservation", "batch-results", f"{len(ms)} results for {len(chunk)} circuits")
                for m in ms:
                    key = tuple(a["circs"][pos])
                    ctx.check(len(m.bitstrings) >= shots[pos], "conservation", "fewer-than-requested", f"circuit {pos}: {len(m.bitstrings)} < {shots[pos]}")
                    ctx.check(all(tuple(t) == key for t in m.bitstrings), "conservation", "foreign-shot", f"circuit {pos} got foreign shots")
                    pos += 1
        be.fail_at = None
        ctx.log("batches", "ok", _sig=f"{len(circs)}/{mb}/{len(res)}")

    def _do_represent(self, ctx, st, step, a):
        from orquestra.quantum.distributions import MeasurementOutcomeDistribution
        from orquestra.quantum.measurements import Measurements

        n = ctx.config["n"]
        keys = [tuple((k >> (n - 1 - q)) & 1 for q in range(n)) for k in a["keys"]]
        if a.get("mkeys"):
            keys = [tuple(k) for k in a["mkeys"]][: len(a["weights"])]
            ctx.probe("represent-multi-level-outcomes")
        src = {(k if a["keystyle"] == "tuple" else "".join(map(str, k))): (np.float32(w) if a.get("f32") else w) for k, w in zip(keys, a["weights"])}
        ok, dist = call(MeasurementOutcomeDistribution, dict(src))
        if not ok:
            ctx.log("represent", "bad-distribution")
            return
        before = dict(dist.distribution_dict)
        N = a["N"]
        if a.get("Ntype"):
            # the shot number as a numpy integer (what `shots = np.array([...])[i]` or a parsed config gives the caller)
            N = {"i64": np.int64, "i32": np.int32}[a["Ntype"]](N)
            ctx.probe("represent-numpy-shot-number")
        ok, res = call(Measurements.get_measurements_representing_distribution, dist, N)
        ctx.called("get_measurements_representing_distribution")
        if not ok and a.get("f32"):
            # single-precision weights: the normalised probabilities miss 1 by ~1e-8 and numpy's sampler may refuse them.
            # A refusal loses no shot; an ANSWER is judged like any other (exactly N shots, all on the support)
            ctx.probe("represent-refused-float32")
            ctx.log("represent", "refused-f32")
            return
        if ok and a.get("f32"):
            ctx.probe("represent-float32-answered")
        ctx.check(ok, "unexpected-reject", "represent", lambda: f"representing {before} with {N} shots raised {type(res).__name__}: {res}")
        with judge(ctx):
            bs = res.bitstrings
            rounded = sum(int(round(p * N)) for p in before.values())
            ctx.probe("represent-exact" if rounded == N else ("represent-topup" if rounded < N else "represent-eliminate"))
            if rounded != N:
                ctx.nontrivial = True
            if rounded - N >= 2 and sum(1 for p in before.values() if 0 < p * N < 0.5) >= 2:
                ctx.probe("represent-eliminate-many")
            ctx.check(len(bs) == N, "conservation", "represent-count", f"{len(bs)} shots instead of {N} for {before} (rounded total {rounded})")
            support = {k for k, p in before.items() if p > 0}
            bad = [tuple(t) for t in bs if tuple(t) not in support]
            ctx.check(not bad, "conservation", "represent-off-support", lambda: f"shot {bad[0]} is outside the support {sorted(support)} of {before}")
            ctx.check(dict(dist.distribution_dict) == before, "mutated-argument", "represent-source", "the source distribution was changed")
        ctx.log("represent", "ok", _sig=f"{len(keys)}/{N}/{rounded - N}")

    def _do_discretise(self, ctx, st, step, a):
        from orquestra.quantum.utils import scale_and_discretize

        ws, total = list(a["weights"]), a["total"]
        kind = a.get("as", "list")
        if kind == "i64":
            ws = [max(1, int(round(w))) for w in ws]
        held = st.setdefault("wpool", {}).get(a.get("slot"))
        if a.get("reuse") and held is not None:
            box, ws = held  # the very container an earlier call was given, and the weights it was created with
            ctx.probe("discretise-container-reused")
            ctx.nontrivial = True
        else:
            box = {"list": list, "tuple": tuple, "f64": lambda w: np.array(w, dtype=np.float64),
                   "i64": lambda w: np.array(w, dtype=np.int64)}[kind](ws)
            st["wpool"][a.get("slot")] = (box, list(ws))
        ok, res = call(scale_and_discretize, box, total)
        ctx.called("scale_and_discretize")
        ctx.check(ok, "unexpected-reject", "discretise", lambda: f"scale_and_discretize({ws}, {total}) raised {type(res).__name__}: {res}")
        with judge(ctx):
            ctx.check(len(res) == len(ws), "conservation", "discretise-length", f"{len(res)} values for {len(ws)} weights")
            ctx.check(all(isinstance(x, int) and not isinstance(x, bool) for x in res), "conservation", "discretise-type", f"non-integers in {res}")
            ctx.check(sum(res) == total, "conservation", "discretise-sum", f"{res} sums to {sum(res)}, total {total}")
            s = sum(ws)
            for x, w in zip(res, ws):
                share = w * total / s
                ctx.check(abs(x - share) < 1 + 1e-9, "conservation", "discretise-share", f"value {x} for share {share!r} ({ws}, total {total})")
        ctx.probe("discretise")
        ctx.log("discretise", "ok", _sig=f"{len(ws)}/{total}")

    def shrink_step(self, s):
        a = s["args"]
        if s["op"] in ("expand", "batches") and len(a["circs"]) > 1:
            for i in range(len(a["circs"])):
                yield {**s, "args": {**a, "circs": a["circs"][:i] + a["circs"][i + 1:], "shots": a["shots"][:i] + a["shots"][i + 1:]}}


WORLD = World()
