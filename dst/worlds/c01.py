"""C01 — a circuit acts as the ordered product of its gates on the named qubits.

Session world: a pool of circuits and a set of simulators (bundled SymbolicSimulator and
SplitSims on the real base class with run-specific native sets); every answer — whole
matrix, step-wise application, simulator final state, concatenations — is refined
against an independent state-vector model, wherever in the session it is asked.
"""
import random

import numpy as np

from ..simkit import gen, refmodel
from ..simkit.backends import BackendFault, classes
from ..simkit.core import WallLimit, call, judge, clear_library_caches, time_limit
from ..simkit.simalloc import SimAlloc

PID = "C01"
FAMILIES = ["all", "none", "gateop", "arity", "names", "parity", "nongate"]
SYM_NAMES = ["theta", "phi", "x"]


def _nonunitary(g):
    if "of" in g:
        return g["w"] == "exp" or _nonunitary(g["of"])
    return g.get("custom") == "MyNonUnitary"


def _base_name(gate):
    while hasattr(gate, "wrapped_gate"):
        gate = gate.wrapped_gate
    return getattr(gate, "name", "?")


def _unavailable_key(ops):
    """Names of base gates whose own matrix cannot be evaluated at all."""
    bad = set()
    for o in ops:
        if hasattr(o, "gate"):
            ok, _ = call(lambda: o.gate.matrix)
            if not ok:
                bad.add(_base_name(o.gate))
    return "gate-matrix-unavailable:" + ",".join(sorted(bad))


class World:
    PID = PID
    TIERS = {
        "quick": {"runs": 700, "budget_s": 50, "determinism_seeds": 6, "chunk": 10},
        "thorough": {"runs": 40000, "budget_s": 900, "determinism_seeds": 100, "chunk": 40},
    }
    RULE = ("one case = one seeded session: circuits are created, concatenated and extended in a shared pool and "
            "submitted (whole-matrix, step-wise, get_wavefunction with/without initial state) to the bundled simulator "
            "and to base-class simulators with run-specific native operation sets, with peer failures injected; "
            "non-trivial = at least one multi-segment split or one non-adjacent/descending index tuple or one "
            "concatenation was evaluated and at least 2 evaluations happened; distinct = distinct (op, outcome, fault) sequences")
    COMPONENTS = {
        "real": ["Circuit (+, to_unitary, split_circuit)", "GateOperation.apply / lifted_matrix / _lift_matrix*",
                 "MultiPhaseOperation.apply", "BaseWavefunctionSimulator.get_wavefunction", "SymbolicSimulator",
                 "all gate classes and wrappers (.matrix is also what the model consumes, as the property words it)"],
        "stub": ["numpy as seen by the library's modules: a forwarding proxy whose allocating entry points can be made to raise MemoryError at a scheduled allocation (SimAlloc)",
                 "SplitSim._get_wavefunction_from_native_circuit: reference applier (stub) or operation.apply (real), per run",
                 "SplitSim.is_natively_supported: run-specific predicate", "peer failure injection (BackendFault)"],
        "model": ["state-vector model: tensordot of the gate's own matrix on the listed axes, qubit 0 = MSB"],
    }
    ASSUMPTIONS = [
        "the gate's own .matrix is taken as given (C02/C07 own its correctness); C01 judges placement, order, width and state threading",
        "symbolic circuits (every gate carrying free symbols) are compared after substituting one random point into the library's symbolic answer and into each gate's own symbolic matrix; binding (C06) is not used",
        "non-unitary gates (exp wrappers, non-unitary custom matrices) are only used in to_unitary/step-wise steps because get_wavefunction legitimately refuses unnormalised states",
        "tolerance 1e-9*(1+#ops) on amplitudes",
    ]
    PROBES_EXPECTED = ["multi-segment-split", "non-adjacent-indices", "descending-indices", "concat", "append-op",
                       "idle-qubits", "initial-state", "peer-fault", "after-peer-fault", "phase-op", "wrapper-gate",
                       "custom-gate", "empty-circuit", "unitary", "stepwise", "arity>=3", "rejected-request", "inplace-backend",
                       "symbolic-circuit", "alloc-fault", "grown-from-shared-list", "register-wider-than-8", "deep-circuit"]

    # ------------------------------------------------------------ generation
    def gen_plan(self, seed, tier):
        r = random.Random(seed)
        n = r.choice([1, 2, 2, 3, 3, 3, 4, 4]) if r.random() > 0.05 else 5
        wide = r.random() < 0.10
        if wide:
            n = r.choice([9, 9, 10])   # gates whose qubits lie nine or more register positions apart
        sims = [{"kind": "symbolic"}]
        for _ in range(r.randint(1, 2)):
            fam = r.choice(FAMILIES)
            arg = None
            if fam == "arity":
                arg = r.choice([1, 2])
            elif fam == "names":
                arg = r.sample(sorted(gen.BUILTIN), r.randint(3, 15)) + r.sample(["Control", "Dagger", "MyRot"], r.randint(0, 2))
            elif fam == "parity":
                arg = r.choice([0, 1])
            sims.append({"kind": "split", "family": fam, "arg": arg, "real_apply": r.random() < 0.5, "inplace": r.random() < 0.5})
        cfg = {"n": n, "sims": sims, "faults": r.choice(["none", "none", "low", "medium"]), "clients": r.randint(1, 3),
               "wrappers": r.choice([0.0, 0.3, 0.6]), "phase_ops": r.choice([0.0, 0.15, 0.3]),
               "exclude": [] if r.random() < 0.5 else ["U3"], "cache_clear": r.choice([0, 0.2]),
               "symbolic": r.choice([0, 0.6, 1.5]), "grow": r.choice([0, 0, 1.5])}
        n_steps = r.randint(5, 25)
        steps = []
        n_ops_max = 12 if n <= 3 else 8
        if wide:
            n_ops_max = 3
        def mk():
            nn = r.choice([n, n, n, max(1, n - 1), max(1, n - 2)])
            c = gen.rand_circuit(r, nn, r.choice([0, 1, 2, 3, 5, 8, n_ops_max]) if not wide else r.choice([1, 2, 3]), phase_ops=cfg["phase_ops"] if not wide else 0.0,
                                 wrappers=cfg["wrappers"], rich=True, exclude=cfg["exclude"], custom=0.12,
                                 max_arity=4)
            return {"op": "mk", "args": {"c": c}}
        for _ in range(r.randint(1, 3)):
            steps.append(mk())
        if r.random() < 0.06:
            steps.append(self._gen_long(r, cfg))
        pf = {"none": 0.0, "low": 0.2, "medium": 0.45}[cfg["faults"]]
        while len(steps) < n_steps:
            op = r.choices(["mk", "concat", "append", "wf", "unitary", "stepwise", "reject", "clear", "symeval", "mk_grow"],
                           [2, 3, 1.5, 8, 3, 2, 0.7, 0.3 if cfg["cache_clear"] else 0, cfg["symbolic"], cfg["grow"]])[0]
            if op == "mk":
                steps.append(mk())
            elif op == "concat":
                steps.append({"op": "concat", "args": {"a": r.randrange(64), "b": r.randrange(64)}})
            elif op == "append":
                g = gen.rand_gate(r, max_arity=min(n, 3), wrappers=cfg["wrappers"], rich=True, exclude=cfg["exclude"])
                k = gen.gate_arity(g)
                width = r.choice([n, n, n + 1]) if n < 5 else n
                if k <= width:
                    steps.append({"op": "append", "args": {"a": r.randrange(64), "o": {"gate": g, "q": r.sample(range(width), k)}}})
            elif op == "wf":
                init = r.choice([None, None, {"basis": r.randrange(2 ** 5)}, {"rand": r.getrandbits(30)}])
                s = {"op": "wf", "args": {"sim": r.randrange(8), "c": r.randrange(64), "init": init}}
                if init is not None and r.random() < 0.3:
                    # the client evolves ONE buffer layer by layer: psi[:] = sim.get_wavefunction(c, psi).amplitudes
                    s["args"]["chain"] = r.randint(1, 3)
                if r.random() < pf:
                    s["fault"] = r.choice([{"kind": "peer", "at": r.randrange(0, 3)}, {"kind": "peer", "at": r.randrange(0, 2)},
                                           {"kind": "alloc", "at": r.randrange(0, 20)}])
                steps.append(s)
            elif op == "unitary":
                s = {"op": "unitary", "args": {"c": r.randrange(64)}}
                if r.random() < pf / 2:
                    s["fault"] = {"kind": "alloc", "at": r.randrange(0, 20)}
                steps.append(s)
            elif op == "stepwise":
                s = {"op": "stepwise", "args": {"c": r.randrange(64), "init": r.choice([None, {"basis": r.randrange(32)}, {"rand": r.getrandbits(30)}])}}
                if r.random() < pf / 2:
                    s["fault"] = {"kind": "alloc", "at": r.randrange(0, 20)}
                steps.append(s)
            elif op == "symeval":
                steps.append(self._gen_symeval(r, cfg))
            elif op == "mk_grow":
                # the client builds a family of circuits layer by layer from ONE growing list of operations
                layer = gen.rand_circuit(r, n, r.randint(1, 3), wrappers=cfg["wrappers"], rich=True, exclude=cfg["exclude"], custom=0.0,
                                         max_arity=3)["ops"]
                steps.append({"op": "mk_grow", "args": {"layer": layer, "explicit_n": r.random() < 0.3}})
            elif op == "reject":
                steps.append({"op": "reject", "args": {"sim": r.randrange(8), "c": r.randrange(64), "n": r.choice([0, -1])}})
            else:
                steps.append({"op": "clear", "args": {}})
        for s in steps:
            s["client"] = r.randrange(cfg["clients"])
            s["rs"] = r.getrandbits(32)
        return {"format": 1, "property": PID, "world": "runners", "seed": seed, "config": cfg, "steps": steps}

    def _gen_long(self, r, cfg):
        """A deep circuit ("circuits of any length"): hundreds of one- and two-qubit gates on 2-3 qubits, described by a
        seed and rebuilt when the step runs."""
        return {"op": "long", "args": {"n": r.choice([2, 2, 3]), "len": r.choice([r.randint(257, 300), r.randint(300, 520), r.randint(513, 700), 256, 257, 512]),
                                       "seed": r.getrandbits(32), "init": r.choice([None, {"basis": r.randrange(8)}, {"rand": r.getrandbits(30)}])}}

    def _gen_symeval(self, r, cfg):
        """An all-symbolic circuit (every gate parametric, every parameter an expression over free symbols): the
        library then works with sympy matrices throughout - a separate lifting / product code path."""
        n = r.choice([1, 2, 2, 3, 3])
        nonparam = [g for g, (_, npar) in gen.BUILTIN.items() if npar == 0] + ["MyFixed", "MyPerm3", "MyNonUnitary"]
        excl = nonparam + (["U3"] if r.random() < 0.7 else [])

        def circ(k):
            return gen.rand_circuit(r, r.choice([n, n, max(1, n - 1)]), k, wrappers=r.choice([0.0, 0.3]), powexp=False,
                                    symbolic=1.0, exclude=excl, custom=0.15, max_arity=3, symbols=SYM_NAMES)
        a = {"c": circ(r.choice([1, 2, 3, 4])), "vals": {s_: r.uniform(-3, 3) for s_ in SYM_NAMES},
             "init": r.choice([{"basis": r.randrange(8)}, {"rand": r.getrandbits(30)}])}
        if r.random() < 0.4:
            a["c2"] = circ(r.choice([1, 2]))
        return {"op": "symeval", "args": a}

    def sample(self, plan):
        return {"seed": plan["seed"], "config": plan["config"], "n_steps": len(plan["steps"]),
                "steps": [{k: s[k] for k in ("op", "args", "fault") if k in s} for s in plan["steps"][:6]]}

    # ------------------------------------------------------------ execution
    def init(self, ctx, plan):
        from orquestra.quantum import utils as umod
        from orquestra.quantum import wavefunction as wfmod
        from orquestra.quantum.runners.symbolic_simulator import SymbolicSimulator

        _, SplitSim, _ = classes()
        clear_library_caches()
        clear_library_caches()
        sims = []
        for s in plan["config"]["sims"]:
            if s["kind"] == "symbolic":
                sims.append(SymbolicSimulator())
            else:
                sims.append(SplitSim(s["family"], s["arg"], s["real_apply"]))
                sims[-1].inplace = bool(s.get("inplace"))
        return {"sims": sims, "pool": [], "evals": 0, "after_fault": set(), "interesting": False, "alloc": SimAlloc().install()}

    def cleanup(self, st):
        st["alloc"].restore()

    def step(self, ctx, st, step):
        try:
            getattr(self, "_do_" + step["op"])(ctx, st, step, step["args"])
        finally:
            st["alloc"].end_call()  # an allocation fault never outlives the step it was scheduled for
        if st["evals"] >= 2 and st["interesting"]:
            ctx.nontrivial = True

    # -- helpers
    def _pick(self, st, ref):
        return st["pool"][ref % len(st["pool"])] if st["pool"] else None

    def _note_features(self, ctx, st, ent):
        for o in ent["ops"]:
            if hasattr(o, "gate"):
                q = list(o.qubit_indices)
                if len(q) >= 2:
                    if any(abs(a - b) != 1 for a, b in zip(q, q[1:])):
                        ctx.probe("non-adjacent-indices")
                        st["interesting"] = True
                    if any(a > b for a, b in zip(q, q[1:])):
                        ctx.probe("descending-indices")
                        st["interesting"] = True
                if len(q) >= 3:
                    ctx.probe("arity>=3")
                if hasattr(o.gate, "wrapped_gate"):
                    ctx.probe("wrapper-gate")
                if type(getattr(o.gate, "matrix_factory", None)).__name__ == "CustomGateMatrixFactory":
                    ctx.probe("custom-gate")
            else:
                ctx.probe("phase-op")
        used = {q for o in ent["ops"] if hasattr(o, "gate") for q in o.qubit_indices}
        if len(used) < ent["n"] and ent["ops"]:
            ctx.probe("idle-qubits")
        if not ent["ops"]:
            ctx.probe("empty-circuit")

    def _add(self, ctx, st, circ, ops, n, nonunitary, what):
        with judge(ctx):
            ctx.check(circ.n_qubits == n, "refine", f"{what}-width", f"{what}: n_qubits {circ.n_qubits} != expected {n}")
            got = list(circ.operations)
            ctx.check(len(got) == len(ops) and all(a == b for a, b in zip(got, ops)), "refine", f"{what}-operations",
                      f"{what}: operations differ from the expected sequence")
        wild = False
        mats, merr = [], None
        # the gates' own matrices, evaluated once per pool member (the model's only input from the library)
        for o in circ.operations:
            if hasattr(o, "gate"):
                okm, u = call(refmodel.gate_matrix, o.gate)
                if not okm:
                    merr = merr or u
                    mats.append(None)
                    continue
                mats.append(u)
                if float(np.max(np.abs(u @ u.conj().T - np.eye(len(u))))) > 1e-9:
                    # get_wavefunction legitimately refuses the resulting unnormalised state
                    nonunitary = True
                    ctx.probe("non-unitary-own-matrix")
                if float(np.max(np.abs(u))) > 1e3:
                    wild = True
            else:
                mats.append(None)
        ent = {"c": circ, "ops": list(circ.operations), "n": n, "nonunitary": nonunitary,
               "has_phase": any(not hasattr(o, "gate") for o in circ.operations), "mats": mats, "merr": merr}
        # a MultiPhaseOperation addresses the whole register: concatenating it into a wider circuit gives an
        # ill-formed program that no simulator can run; such pool members are not evaluated
        # numerically exploded own matrices (sympy float inverses; C07's business) are not evaluated at all
        ent["illformed"] = wild or any(not hasattr(o, "gate") and len(o.params) != 2 ** n for o in circ.operations)
        st["pool"].append(ent)
        if len(st["pool"]) > 10:
            st["pool"].pop(0)
        return ent

    def _init_state(self, spec, n, r):
        if spec is None:
            return None
        if "basis" in spec:
            v = np.zeros(2 ** n, dtype=complex)
            v[spec["basis"] % (2 ** n)] = 1.0
            return v
        rr = random.Random(spec["rand"])
        v = np.array([complex(rr.gauss(0, 1), rr.gauss(0, 1)) for _ in range(2 ** n)])
        return v / np.linalg.norm(v)

    def _model(self, ctx, ent, init):
        """Reference final state; returns None when a gate's own matrix cannot be evaluated."""
        if ent["merr"] is not None:
            return None, ent["merr"]
        n = ent["n"]
        if init is None:
            state = np.zeros(2 ** n, dtype=complex)
            state[0] = 1.0
        else:
            state = np.asarray(init, dtype=complex)
        for o, u in zip(ent["ops"], ent["mats"]):
            state = refmodel.apply_matrix(state, u, list(o.qubit_indices), n) if u is not None else refmodel.apply_op(state, o, n)
        return state, None

    def _tol(self, ent):
        return 1e-9 * (1 + len(ent["ops"]))

    # -- steps
    def _do_mk(self, ctx, st, step, a):
        spec = a["c"]
        ok, circ = call(gen.build_circuit, spec)
        if not ok:
            ctx.fail("unexpected-reject", "construct", f"constructing circuit {spec} raised {type(circ).__name__}: {circ}")
        ops = list(circ.operations)
        used = max([max(o.qubit_indices) for o in ops] + [-1]) + 1
        n = spec.get("n") or used
        nonunit = any("gate" in o and _nonunitary(o["gate"]) for o in spec["ops"])
        ent = self._add(ctx, st, circ, ops, n, nonunit, "construct")
        self._note_features(ctx, st, ent)
        if n > 8:
            ctx.probe("register-wider-than-8")
        ctx.log("mk", "ok", n=n, n_ops=len(ops))

    def _do_mk_grow(self, ctx, st, step, a):
        from orquestra.quantum.circuits import Circuit

        L = st.setdefault("grow_list", [])
        ok, new_ops = call(lambda: [gen.build_op(o) for o in a["layer"]])
        if not ok:
            ctx.fail("unexpected-reject", "construct", f"constructing operations {a['layer']} raised {type(new_ops).__name__}: {new_ops}")
        L.extend(new_ops)   # the client's own list; circuits built from it earlier must not notice
        used = max([max(o.qubit_indices) for o in L if hasattr(o, "qubit_indices")] + [-1]) + 1
        n = used + 1 if a.get("explicit_n") else used
        ok, circ = call(lambda: Circuit(L, n) if a.get("explicit_n") else Circuit(L))
        ctx.check(ok, "unexpected-reject", "construct", lambda: f"Circuit(list of {len(L)} operations) raised {type(circ).__name__}: {circ}")
        nonunit = any(_nonunitary(o["gate"]) for o in a["layer"] if "gate" in o) or bool(st.get("grow_nonunitary"))
        st["grow_nonunitary"] = nonunit
        ent = self._add(ctx, st, circ, list(L), n, nonunit, "construct")
        self._note_features(ctx, st, ent)
        if len(L) > len(new_ops):
            ctx.probe("grown-from-shared-list")
        ctx.log("mk_grow", "ok", n=n, n_ops=len(L))

    def _still_same_program(self, ctx, ent):
        """A circuit is the program it was built from, whatever the client did with its own containers since."""
        with judge(ctx):
            got = list(ent["c"].operations)
            ctx.check(ent["c"].n_qubits == ent["n"] and len(got) == len(ent["ops"]) and all(x == y for x, y in zip(got, ent["ops"])),
                      "refine", "program-changed-after-construction",
                      f"circuit built from {len(ent['ops'])} operations on {ent['n']} qubits now reports {len(got)} operations on {ent['c'].n_qubits} qubits")

    def _do_concat(self, ctx, st, step, a):
        x, y = self._pick(st, a["a"]), self._pick(st, a["b"])
        if x is None:
            ctx.log("concat", "noop")
            return
        ok, circ = call(lambda: x["c"] + y["c"])
        ctx.called("Circuit.__add__")
        ctx.check(ok, "unexpected-reject", "concat", lambda: f"c1 + c2 raised {type(circ).__name__}: {circ}")
        self._add(ctx, st, circ, x["ops"] + y["ops"], max(x["n"], y["n"]), x["nonunitary"] or y["nonunitary"], "concat")
        ctx.probe("concat")
        st["interesting"] = True
        ctx.log("concat", "ok", n=max(x["n"], y["n"]))

    def _do_append(self, ctx, st, step, a):
        x = self._pick(st, a["a"])
        if x is None:
            ctx.log("append", "noop")
            return
        op = gen.build_op(a["o"])
        ok, circ = call(lambda: x["c"] + op)
        ctx.check(ok, "unexpected-reject", "append", lambda: f"c + op raised {type(circ).__name__}: {circ}")
        ent = self._add(ctx, st, circ, x["ops"] + [op], max(x["n"], max(a["o"]["q"]) + 1),
                        x["nonunitary"] or _nonunitary(a["o"]["gate"]), "append")
        self._note_features(ctx, st, ent)
        ctx.probe("append-op")
        ctx.log("append", "ok")

    def _do_clear(self, ctx, st, step, a):
        from orquestra.quantum import wavefunction as wfmod
        clear_library_caches()
        ctx.log("clear", "ok")

    def _do_reject(self, ctx, st, step, a):
        ent = self._pick(st, a["c"])
        if ent is None:
            ctx.log("reject", "noop")
            return
        sim = st["sims"][a["sim"] % len(st["sims"])]
        ok, res = call(sim.run_and_measure, ent["c"], a["n"])
        ctx.probe("rejected-request")
        ctx.log("reject", "raised" if not ok else "returned")

    def _do_wf(self, ctx, st, step, a):
        ent = self._pick(st, a["c"])
        if ent is None or ent["nonunitary"] or ent["illformed"]:
            ctx.log("wf", "noop")
            return
        si = a["sim"] % len(st["sims"])
        sim = st["sims"][si]
        n = ent["n"]
        if n == 0:
            ctx.log("wf", "zero-width")
            return
        self._still_same_program(ctx, ent)
        init = self._init_state(a["init"], n, None)
        if init is not None:
            ctx.probe("initial-state")
        fault = step.get("fault")
        is_split = hasattr(sim, "native_calls")
        mark = len(sim.native_calls) if is_split else 0
        if is_split:
            sim.arm(fault["at"] if fault else None)
            sim.inplace_ok = init is None
            if sim.inplace and init is None:
                ctx.probe("inplace-backend")
        init_copy = None if init is None else init.copy()
        st["alloc"].begin_call(fault)
        ok, res = call(sim.get_wavefunction, ent["c"], init)
        alloc_fired = st["alloc"].end_call()
        ctx.called("get_wavefunction:" + type(sim).__name__)
        if is_split:
            sim.arm(None)
        if init is not None:
            ctx.check(np.array_equal(init, init_copy), "mutated-argument", "initial-state", "get_wavefunction changed the initial state array")
        if si in st["after_fault"]:
            ctx.probe("after-peer-fault")
            st["after_fault"].discard(si)
        want, merr = self._model(ctx, ent, init)
        if alloc_fired:
            ctx.fault("alloc-fault")
            ctx.probe("alloc-fault")
            if not ok:  # the allocation failure was reported (as MemoryError or wrapped): a legal outcome
                st["after_fault"].add(si)
                ctx.log("wf", "alloc-fault", sim=si)
                return
            ctx.probe("alloc-fault-survived")  # the library coped: its answer is judged like any other
        if not ok and isinstance(res, BackendFault):
            ctx.fault("peer-fault")
            ctx.probe("peer-fault")
            st["after_fault"].add(si)
            ctx.log("wf", "peer-fault", sim=si)
            return
        if not ok:
            key = _unavailable_key(ent["ops"]) if merr is not None else "simulate"
            ctx.fail("unexpected-reject", key,
                     f"get_wavefunction on {type(sim).__name__} raised {type(res).__name__}: {res} for circuit {ent['c']!r}")
        if want is None:
            ctx.fail("refine", "model-unavailable", f"simulator answered but the gates' own matrices cannot be evaluated: {merr!r}")
        st["evals"] += 1
        with judge(ctx):
            got = np.asarray(res.amplitudes, dtype=complex).reshape(-1)
            ctx.check(len(got) == 2 ** n, "refine", "state-length", f"{len(got)} amplitudes for {n} qubits")
            err = float(np.max(np.abs(got - want)))
            ctx.check(err <= self._tol(ent), "refine", "final-state",
                      lambda: f"{type(sim).__name__}[{ctx.config['sims'][si]}] final state differs from model by {err:.3e} for {ent['c']!r} init={a['init']}")
        if is_split:
            self._check_partition(ctx, st, sim, ent, mark)
        # the same circuit on the same ndarray OBJECT, whose content the client has meanwhile replaced by the previous
        # answer (repeated application of a layer in one buffer): the answer is a function of the content, not of the object
        for rep in range(a.get("chain", 0) if init is not None and len(got) == len(init) else 0):
            init[:] = got
            cur = init.copy()
            if is_split:
                sim.arm(None)
                sim.inplace_ok = False
            okc, resc = call(sim.get_wavefunction, ent["c"], init)
            ctx.called("get_wavefunction:" + type(sim).__name__)
            ctx.probe("buffer-reused")
            if not okc:
                ctx.fail("unexpected-reject", "simulate-chain", f"get_wavefunction raised {type(resc).__name__}: {resc} when the same circuit was "
                                                                f"applied again to the buffer holding the previous answer ({ent['c']!r})")
            ctx.check(np.array_equal(init, cur), "mutated-argument", "initial-state", "get_wavefunction changed the initial state array")
            wantc, _ = self._model(ctx, ent, cur)
            with judge(ctx):
                got = np.asarray(resc.amplitudes, dtype=complex).reshape(-1)
                errc = float(np.max(np.abs(got - wantc)))
                ctx.check(errc <= self._tol(ent) * (rep + 2), "refine", "final-state:buffer-reused",
                          lambda: f"{type(sim).__name__}[{ctx.config['sims'][si]}]: application {rep + 2} of {ent['c']!r} to one buffer (content replaced by the "
                                  f"previous answer) differs from the model by {errc:.3e}")
        ctx.log("wf", "ok", sim=si, n=n, n_ops=len(ent["ops"]))

    def _check_partition(self, ctx, st, sim, ent, mark):
        calls_ = sim.native_calls[mark:]
        groups = []
        cur, curv = None, None
        for o in ent["ops"]:
            v = bool(sim.is_natively_supported(o))
            if cur is None or v != curv:
                cur, curv = [], v
                groups.append((v, cur))
            cur.append(o)
        if len(groups) >= 2:
            ctx.probe("multi-segment-split")
            st["interesting"] = True
        native = [g for v, g in groups if v]
        if not calls_ and native:
            # answered (correctly - the state was judged above) without consulting the peer: the property does not say
            # that the peer must be asked, only what the answer is
            ctx.probe("answered-without-peer")
            return
        # what the peer was handed must be the native operations of the program, in order, on the full register; how
        # they are cut into sub-circuits is the library's business
        flat_seen = [o for ops, _ in calls_ for o in ops]
        flat_want = [o for g in native for o in g]
        for ops, nq in calls_:
            ctx.check(nq == ent["n"], "refine", "segment-width", f"native sub-circuit has width {nq}, circuit has {ent['n']}")
        ctx.check(len(flat_seen) == len(flat_want) and all(x is y or x == y for x, y in zip(flat_seen, flat_want)), "refine", "segment-ops",
                  f"the peer was handed {len(flat_seen)} operations in {len(calls_)} sub-circuits; the program has {len(flat_want)} native operations "
                  f"in {len(native)} runs, or they differ / are out of order")
        if len(calls_) != len(native):
            ctx.probe("native-runs-cut-differently")

    def _do_unitary(self, ctx, st, step, a):
        ent = self._pick(st, a["c"])
        if ent is None or ent["has_phase"] or not ent["ops"] or ent["n"] > 4 or ent["illformed"]:
            ctx.log("unitary", "noop")
            return
        n = ent["n"]
        self._still_same_program(ctx, ent)
        st["alloc"].begin_call(step.get("fault"))
        ok, u = call(ent["c"].to_unitary)
        if st["alloc"].end_call():
            ctx.fault("alloc-fault")
            ctx.probe("alloc-fault")
            if not ok:
                ctx.log("unitary", "alloc-fault")
                return
        ctx.called("Circuit.to_unitary")
        cols, merr = [], None
        for j in range(2 ** n):
            v = np.zeros(2 ** n, dtype=complex)
            v[j] = 1
            w, merr = self._model(ctx, ent, v)
            if w is None:
                break
            cols.append(w)
        if not ok:
            key = _unavailable_key(ent["ops"]) if merr is not None else "to_unitary"
            ctx.fail("unexpected-reject", key, f"to_unitary raised {type(u).__name__}: {u} for {ent['c']!r}")
        if merr is not None:
            ctx.fail("refine", "model-unavailable", f"to_unitary answered but the gates' own matrices cannot be evaluated: {merr!r}")
        st["evals"] += 1
        ctx.probe("unitary")
        with judge(ctx):
            um = np.array(u, dtype=complex)
            ctx.check(um.shape == (2 ** n, 2 ** n), "refine", "unitary-shape", f"shape {um.shape} for {n} qubits")
            want = np.stack(cols, axis=1)
            err = float(np.max(np.abs(um - want)))
            ctx.check(err <= self._tol(ent), "refine", "whole-matrix", lambda: f"to_unitary differs from the ordered product by {err:.3e} for {ent['c']!r}")
        ctx.log("unitary", "ok", n=n)

    def _do_long(self, ctx, st, step, a):
        """to_unitary, the bundled simulator and step-wise application on one deep circuit."""
        from orquestra.quantum.runners.symbolic_simulator import SymbolicSimulator

        rr = random.Random(a["seed"])
        n = a["n"]
        spec = gen.rand_circuit(rr, n, a["len"], phase_ops=0.0, explicit_n=1.0, max_arity=2, wrappers=0.0, custom=0.0, rich=False,
                                exclude=["U3", "RH", "Delay", "MyNonUnitary"], echo=0.05)
        spec["n"] = n
        ok, circ = call(gen.build_circuit, spec)
        if not ok:
            ctx.fail("unexpected-reject", "construct", f"constructing a circuit of {a['len']} gates raised {type(circ).__name__}: {circ}")
        ops = list(circ.operations)
        mats = []
        for o in ops:
            okm, u = call(lambda: np.array(o.gate.matrix, dtype=complex))
            if not okm:
                ctx.log("long", "own-matrix-unavailable")
                return
            mats.append(u)
        ent = {"ops": ops, "mats": mats, "n": n, "merr": None}
        tol = 1e-9 * (1 + len(ops))
        what = f"a circuit of {len(ops)} gates on {n} qubits (seed {a['seed']})"
        ok, u = call(circ.to_unitary)
        ctx.called("Circuit.to_unitary")
        ctx.check(ok, "unexpected-reject", "to_unitary", lambda: f"to_unitary raised {type(u).__name__}: {u} for {what}")
        with judge(ctx):
            um = np.array(u, dtype=complex)
            want = np.stack([self._model(ctx, ent, np.eye(2 ** n, dtype=complex)[:, j])[0] for j in range(2 ** n)], axis=1)
            err = float(np.max(np.abs(um - want)))
            ctx.check(um.shape == want.shape and err <= tol, "refine", "whole-matrix:deep-circuit",
                      lambda: f"to_unitary of {what} differs from the ordered product of its gates by {err:.3e}")
        init = self._init_state(a["init"], n, None)
        wantv, _ = self._model(ctx, ent, init)
        ok, wf = call(SymbolicSimulator().get_wavefunction, circ, None if init is None else init.copy())
        ctx.called("get_wavefunction:SymbolicSimulator")
        ctx.check(ok, "unexpected-reject", "simulate", lambda: f"get_wavefunction raised {type(wf).__name__}: {wf} for {what}")
        with judge(ctx):
            got = np.asarray(wf.amplitudes, dtype=complex).reshape(-1)
            err = float(np.max(np.abs(got - wantv)))
            ctx.check(err <= tol, "refine", "final-state:deep-circuit", lambda: f"final state of {what} differs from the model by {err:.3e}")
        st["evals"] += 1
        ctx.probe("deep-circuit")
        ctx.log("long", "ok", n=n, n_ops=len(ops))

    def _do_stepwise(self, ctx, st, step, a):
        ent = self._pick(st, a["c"])
        if ent is None or ent["n"] == 0 or ent["illformed"]:
            ctx.log("stepwise", "noop")
            return
        n = ent["n"]
        init = self._init_state(a["init"] or {"basis": 0}, n, None)
        state = init.copy()
        want = init.copy()
        st["alloc"].begin_call(step.get("fault"))
        for k, o in enumerate(ent["ops"]):
            prev = state
            ok, state = call(o.apply, state)
            if st["alloc"].fired:
                st["alloc"].end_call()
                ctx.fault("alloc-fault")
                ctx.probe("alloc-fault")
                if not ok:
                    ctx.log("stepwise", "alloc-fault", at=k)
                    return
            u = ent["mats"][k]
            okm, want = (call(refmodel.apply_matrix, want, u, list(o.qubit_indices), n) if u is not None
                         else call(refmodel.apply_op, want, o, n))
            if not ok:
                key = _unavailable_key([o]) if not okm else "apply"
                ctx.fail("unexpected-reject", key, f"op {k} {o}: apply raised {type(state).__name__}: {state}")
            if not okm:
                ctx.fail("refine", "model-unavailable", f"apply answered but the gate's own matrix cannot be evaluated: {want!r}")
            with judge(ctx):
                got = np.asarray(state, dtype=complex).reshape(-1)
                err = float(np.max(np.abs(got - want)))
                ctx.check(err <= 1e-9 * (1 + k) * max(1.0, float(np.max(np.abs(want)))), "refine", "stepwise",
                          lambda: f"after op {k} ({o}) state differs from model by {err:.3e}")
        st["alloc"].end_call()
        st["evals"] += 1
        ctx.probe("stepwise")
        ctx.log("stepwise", "ok", n=n, n_ops=len(ent["ops"]))

    def _do_symeval(self, ctx, st, step, a):
        import sympy
        from orquestra.quantum.runners.symbolic_simulator import SymbolicSimulator

        ok, c1 = call(gen.build_circuit, a["c"])
        if not ok:
            ctx.fail("unexpected-reject", "construct-symbolic", f"constructing {a['c']} raised {type(c1).__name__}: {c1}")
        circ, ops = c1, list(c1.operations)
        n = a["c"].get("n") or (max([max(o.qubit_indices) for o in ops] + [-1]) + 1)
        if "c2" in a:
            ok, c2 = call(gen.build_circuit, a["c2"])
            if not ok:
                ctx.fail("unexpected-reject", "construct-symbolic", f"constructing {a['c2']} raised {type(c2).__name__}: {c2}")
            ops2 = list(c2.operations)
            n2 = a["c2"].get("n") or (max([max(o.qubit_indices) for o in ops2] + [-1]) + 1)
            ok, circ = call(lambda: c1 + c2)
            ctx.check(ok, "unexpected-reject", "concat-symbolic", lambda: f"c1 + c2 raised {type(circ).__name__}: {circ}")
            ops, n = ops + ops2, max(n, n2)
            ctx.check(circ.n_qubits == n, "refine", "concat-width", f"symbolic concat: n_qubits {circ.n_qubits} != {n}")
            ctx.probe("concat")
        if not ops or n == 0:
            ctx.log("symeval", "noop")
            return
        vals = {sympy.Symbol(k): float(v) for k, v in a["vals"].items()}

        def num(e):
            return complex(sympy.sympify(e).subs(vals).evalf())

        def nummat(m):
            m = sympy.Matrix(m)
            return np.array([[num(m[i, j]) for j in range(m.shape[1])] for i in range(m.shape[0])], dtype=complex)

        mats = []
        for o in ops:  # the gates' own (symbolic) matrices, evaluated at the chosen point
            okm, u = call(lambda: nummat(o.gate.matrix))
            if not okm:
                ctx.probe("symbolic-own-matrix-unavailable")
                ctx.log("symeval", "own-matrix-unavailable")
                return
            mats.append(u)

        def model(v):
            for o, u in zip(ops, mats):
                v = refmodel.apply_matrix(v, u, list(o.qubit_indices), n)
            return v

        tol = 1e-9 * (1 + len(ops))
        # whole matrix through the sympy lifting path
        ok, u = call(circ.to_unitary)
        ctx.called("Circuit.to_unitary[symbolic]")
        ctx.check(ok, "unexpected-reject", "to_unitary-symbolic", lambda: f"to_unitary raised {type(u).__name__}: {u} for {circ!r}")
        with judge(ctx):
            um = nummat(u)
            ctx.check(um.shape == (2 ** n, 2 ** n), "refine", "unitary-shape", f"shape {um.shape} for {n} qubits")
            want = np.stack([model(np.eye(2 ** n, dtype=complex)[:, j]) for j in range(2 ** n)], axis=1)
            err = float(np.max(np.abs(um - want)))
            ctx.check(err <= tol, "refine", "whole-matrix-symbolic",
                      lambda: f"symbolic to_unitary at {a['vals']} differs from the ordered product by {err:.3e} for {circ!r}")
        # step-wise application to a numeric state
        init = self._init_state(a["init"], n, None)
        state, want = init.copy(), init.copy()
        for k, (o, m) in enumerate(zip(ops, mats)):
            ok, state = call(o.apply, state)
            ctx.check(ok, "unexpected-reject", "apply-symbolic", lambda: f"op {k} {o}: apply raised {type(state).__name__}: {state}")
            want = refmodel.apply_matrix(want, m, list(o.qubit_indices), n)
            with judge(ctx):
                got = np.array([num(e) for e in np.asarray(state, dtype=object).reshape(-1)], dtype=complex)
                err = float(np.max(np.abs(got - want)))
                ctx.check(err <= tol, "refine", "stepwise-symbolic", lambda: f"after op {k} ({o}) state differs from model by {err:.3e}")
        # bundled simulator, default and explicit initial state.  Building a symbolic Wavefunction costs sympy
        # seconds per entry once expressions grow (complex(expr) attempts inside the constructor), so only short
        # programs are simulated, and a wall-clock net turns anything slower into a skipped comparison (a probe)
        import json as _json
        text = _json.dumps([a["c"], a.get("c2")])
        heavy = any(k in text for k in ('"RH"', '"U3"', "sqrt"))
        for ini in ((None, init) if len(ops) <= (2 if heavy else 3) else ()):
            try:
                with time_limit(20):
                    ok, wf = call(SymbolicSimulator().get_wavefunction, circ, None if ini is None else ini.copy())
            except WallLimit:
                ctx.probe("symbolic-simulation-skipped-slow")
                break
            ctx.called("get_wavefunction:SymbolicSimulator[symbolic]")
            ctx.check(ok, "unexpected-reject", "simulate-symbolic", lambda: f"get_wavefunction raised {type(wf).__name__}: {wf} for {circ!r}")
            v0 = np.eye(2 ** n, dtype=complex)[:, 0] if ini is None else ini
            with judge(ctx):
                got = np.array([num(e) for e in np.asarray(wf.amplitudes, dtype=object).reshape(-1)], dtype=complex)
                err = float(np.max(np.abs(got - model(v0))))
                ctx.check(err <= tol, "refine", "final-state-symbolic",
                          lambda: f"SymbolicSimulator final state (symbolic circuit, at {a['vals']}) differs from model by {err:.3e} for {circ!r}")
        st["evals"] += 1
        ctx.probe("symbolic-circuit")
        for o in ops:
            q = list(o.qubit_indices)
            if len(q) >= 2 and (any(abs(x - y) != 1 for x, y in zip(q, q[1:])) or any(x > y for x, y in zip(q, q[1:]))):
                st["interesting"] = True
        ctx.log("symeval", "ok", n=n, n_ops=len(ops))

    def shrink_step(self, s):
        a = s.get("args", {})
        if s["op"] == "mk":
            ops = a["c"]["ops"]
            for i in range(len(ops)):
                c2 = dict(a["c"])
                c2["ops"] = ops[:i] + ops[i + 1:]
                if "n" not in c2:
                    c2["n"] = max([max(o["q"]) for o in ops if "q" in o] + [0]) + 1
                yield {**s, "args": {"c": c2}}
        if s["op"] in ("wf", "stepwise") and a.get("init") is not None:
            yield {**s, "args": {**a, "init": None}}


WORLD = World()
