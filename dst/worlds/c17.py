"""C17 — outcome distributions stay normalised; marginals and distances obey their laws.

History machine over a shared pool of MeasurementOutcomeDistribution objects: construct
(valid and invalid), marginalise (results join the pool, sources are re-used), compare
pairs with the three distance measures, save/load single and list forms through a
fault-injecting simulated disk.  After every step every pool object must still equal
the snapshot taken when it was created ("the source distribution is left intact").
"""
import math
import random
import warnings

from ..simkit.core import call, judge
from ..simkit.store import BUFFER_SIZES, LOAD_FAULTS, SAVE_FAULTS, Kind, Store

PID = "C17"
PATHS3 = ["str", "bytes", "pathlike"]


def key_of(k, style):
    if style == "tuple":
        return tuple(k)
    if style == "bits":
        return "".join(map(str, k))
    return ",".join(map(str, k))


def snap(d):
    return [(tuple(k), float(v)) for k, v in d.distribution_dict.items()]


def is_norm(values):
    return math.isclose(sum(values), 1)


def multidigit_single(items):
    return bool(items) and all(len(k) == 1 for k, _ in items) and any(k[0] >= 10 for k, _ in items)


class World:
    PID = PID
    WATCHDOG_S = 60  # a run of this world takes well under a second; beyond this it is a hang
    TIERS = {
        "quick": {"runs": 20000, "budget_s": 45, "determinism_seeds": 16, "chunk": 200},
        "thorough": {"runs": 1000000, "budget_s": 900, "determinism_seeds": 200, "chunk": 500},
    }
    RULE = ("one case = one seeded history of construct / marginal / distance / read / save / load steps by 1-3 clients on "
            "a shared pool of distribution objects and a simulated disk; non-trivial = at least one marginal whose source "
            "is used again later, or a distance on two pool objects, or a save that was read back; distinct = distinct "
            "(op, outcome, fault) sequences (sha1)")
    COMPONENTS = {
        "real": ["MeasurementOutcomeDistribution (constructor, subdistribution, get_number_of_subsystems, repr)",
                 "compute_mmd / compute_clipped_negative_log_likelihood / compute_jensen_shannon_divergence / evaluate_distribution_distance",
                 "save_/load_measurement_outcome_distribution(s)"],
        "stub": ["disk: SimFS injected as module-global open"],
        "model": ["snapshot of every pool object taken at creation; reference marginal; entropy bound; symmetry laws"],
    }
    ASSUMPTIONS = [
        "weights are either normalised to rounding or off by more than 1e-6 (the library decides with math.isclose, rel 1e-9)",
        "MMD is only asked for bit-valued outcomes (it encodes a key as a base-2 integer) and sigma > 0; distances only for pairs that are both normalised",
        "the list of qubits for a marginal is non-empty, distinct and in range",
        "NLL bound: NLL(t|m) >= H(t) - K*eps - 1e-9 with K the size of the joint support (clipping adds at most eps per outcome to the model's mass)",
        "only normalised distributions are saved (the property speaks of those)",
    ]
    PROBES_EXPECTED = [
        "ctor-normalised-as-is", "ctor-rescaled", "ctor-unnormalised-kept", "ctor-reject", "marginal", "marginal-reordered",
        "marginal-of-marginal", "marginal-source-reused", "marginal-multidigit", "mmd", "mmd-multi-sigma", "nll", "js",
        "distance-self", "distance-via-evaluate", "mmd-numpy-sigma", "wide-support", "wide-support>1024", "save-load-ok", "list-save", "torn-file-load", "overwrite", "zero-weight",
    ]

    # ------------------------------------------------------------ generation
    def _gen_items(self, r, cfg, bits_only=False):
        n = r.choice(cfg["widths"])
        base = 2 if (bits_only or r.random() < cfg["p_bits"]) else r.choice([3, 4, 11, 25])
        space = base ** n
        k = r.randint(1, min(space, 6))
        keys = set()
        while len(keys) < k:
            keys.add(tuple(r.randrange(base) for _ in range(n)))
        keys = sorted(keys)
        r.shuffle(keys)
        ws = [r.choice([1, 2, 3, 0.5, 0.25, r.random(), r.random() * 10]) for _ in keys]
        if len(keys) > 1 and r.random() < 0.25:
            ws[r.randrange(len(ws))] = 0
        return n, [[list(k), w] for k, w in zip(keys, ws)]

    def _gen_new(self, r, cfg, force_valid=False, bits_only=False):
        n, items = self._gen_items(r, cfg, bits_only)
        total = float(sum(w for _, w in items))
        mode = r.choice(["scaled", "scaled", "exact", "raw", "raw-nonorm", "near"]) if total > 0 else "raw"
        if mode == "near":
            # almost normalised: either well inside the library's isclose(rel 1e-9) tolerance (kept as is) or clearly
            # outside it but still tiny (must be rescaled); the band around 1e-9 itself is avoided
            delta = r.choice([-1, 1]) * r.choice([r.uniform(1e-13, 2e-10), r.uniform(5e-9, 9e-7)])
            items = [[k, w / total * (1 + delta)] for k, w in items]
        elif mode in ("scaled", "exact"):
            items = [[k, w / total] for k, w in items]
        elif abs(total - 1) < 1e-3:
            items = [[k, w * 3.0] for k, w in items]
        style = r.choice(["tuple", "tuple", "bits", "comma"])
        if style == "bits" and any(x > 9 for k, _ in items for x in k):
            style = "comma"
        if style == "comma" and n == 1:
            style = "tuple"
        invalid = None
        if not force_valid and r.random() < 0.15:
            invalid = r.choice(["empty", "negative", "ragged", "all-zero"])
        return {"op": "new", "args": {"items": items, "style": style, "normalize": mode != "raw-nonorm", "invalid": invalid}}

    def _fault(self, r, cfg, kinds):
        p = {"none": 0.0, "low": 0.15, "medium": 0.4}[cfg["faults"]]
        if r.random() < p:
            return {"kind": r.choice(kinds), "at": r.randrange(0, 8), "frac": r.random()}
        return None

    def gen_plan(self, seed, tier):
        r = random.Random(seed)
        faulty = r.random() < 0.4
        cfg = {
            "widths": r.choice([[1, 2], [2, 3], [3], [1, 2, 3, 4], [4]]),
            "p_bits": r.choice([0.5, 0.9, 1.0]),
            "fs_buffer": r.choice(BUFFER_SIZES),
            "faults": r.choice(["low", "medium"]) if faulty else "none",
            "clients": r.choice([1, 2, 3]),
            "paths": r.randint(1, 4),
        }
        n_steps = r.randint(5, 30 if tier == "quick" else 50)
        weights = {"new": 3, "marginal": r.choice([3, 6]), "distance": r.choice([2, 4]), "read": 1,
                   "save": r.choice([0, 1, 2]), "load": r.choice([0, 1, 2])}
        ops, ws = zip(*weights.items())
        steps = [self._gen_new(r, cfg, True, bits_only=r.random() < 0.5) for _ in range(r.randint(1, 3))]
        while len(steps) < n_steps:
            op = r.choices(ops, ws)[0]
            if op == "new":
                s = self._gen_new(r, cfg)
            elif op == "marginal":
                s = {"op": "marginal", "args": {"d": r.randrange(64), "qs": r.randrange(1 << 16), "k": r.randint(1, 4)}}
            elif op == "distance":
                s = {"op": "distance", "args": {
                    "kind": r.choice(["mmd", "mmd", "nll", "js"]), "a": r.randrange(64), "b": r.randrange(64),
                    "self": r.random() < 0.2, "via_eval": r.random() < 0.3,
                    "sigma": r.choice([1.0, 0.1, 1e-3, 7.5, 1e4, [0.25, 10, 1000], [1.0], r.uniform(0.01, 50),
                                       {"np": [0.5, 2.0, 30.0]}, {"np": [1.0, 1e3]}]),
                    "epsilon": r.choice([None, 1e-9, 1e-6, 1e-3])}}
            elif op == "read":
                s = {"op": "read", "args": {"d": r.randrange(64)}}
            elif op == "save":
                lst = r.random() < 0.3
                s = {"op": "save", "args": {"list": lst, "ds": [r.randrange(64) for _ in range(r.randint(0, 3) if lst else 1)],
                                            "path": f"/d/dist{r.randrange(cfg['paths'])}.json", "via": r.choice(PATHS3)}}
                f = self._fault(r, cfg, SAVE_FAULTS)
                if f:
                    s["fault"] = f
            else:
                s = {"op": "load", "args": {"path": f"/d/dist{r.randrange(cfg['paths'])}.json", "via": r.choice(["str", "handle"])}}
                f = self._fault(r, cfg, LOAD_FAULTS)
                if f:
                    s["fault"] = f
            steps.append(s)
        if r.random() < 0.03:
            # supports of hundreds to thousands of outcomes on 10-12 qubits (compactly described: rebuilt from a seed
            # when the step runs), at a random position of the history
            for _ in range(r.randint(1, 2)):
                nw = r.choice([10, 11, 12, 12, 17, 20, 24])
                hi = 1800 if nw <= 12 else 250   # (beyond 16 qubits outcome codes no longer fit 16/32-bit squares: keep the supports small)
                w = {"op": "wide", "args": {"n": nw, "ka": r.randint(30 if nw > 12 else 200, hi), "kb": r.randint(30 if nw > 12 else 200, hi),
                                            "heavy": r.randint(0, 6), "seed": r.getrandbits(32), "style": r.choice(["tuple", "bits"]),
                                            "sigma": r.choice([1.0, 0.5, 3.0, 50.0, 1e4, [0.25, 10, 1000], {"np": [0.5, 2.0, 30.0]}]),
                                            "k": r.randint(1, 4)}}
                steps.insert(r.randint(0, len(steps)), w)
        for s in steps:
            s["client"] = r.randrange(cfg["clients"])
            s["rs"] = r.getrandbits(32)
        return {"format": 1, "property": PID, "world": "values+store", "seed": seed, "config": cfg, "steps": steps}

    def sample(self, plan):
        return {"seed": plan["seed"], "config": plan["config"],
                "steps": [{k: s[k] for k in ("op", "args", "fault") if k in s} for s in plan["steps"][:10]],
                "n_steps": len(plan["steps"])}

    # ------------------------------------------------------------ execution
    def init(self, ctx, plan):
        from orquestra.quantum import distributions as D
        from orquestra.quantum.distributions import _measurement_outcome_distribution as DM

        st = {"D": D, "DM": DM, "pool": [], "used_as_source": set()}
        store = Store(ctx, plan["config"].get("fs_buffer", 4096))
        st["store"] = store
        MOD = D.MeasurementOutcomeDistribution

        def dist_diff(want, l):
            if not isinstance(l, MOD):
                return f"type: {type(l).__name__}"
            got = l.distribution_dict
            tag = "-single-subsystem-multi-digit" if multidigit_single(want) else ""
            if set(got.keys()) != {k for k, _ in want} or any(not isinstance(k, tuple) for k in got):
                return f"keys{tag}: {[k for k, _ in want]} -> {list(got.keys())}"
            for k, v in want:
                if not (abs(got[k] - v) <= 1e-12):
                    return f"probability: {k}: {v!r} -> {got[k]!r}"
            return None

        def same_one(c, v, l):
            return dist_diff(v["snaps"][0], l)

        def same_list(c, v, l):
            if not isinstance(l, list):
                return f"type: {type(l).__name__}"
            if len(l) != len(v["snaps"]):
                return f"list-length: {len(v['snaps'])} -> {len(l)}"
            for i, (w, x) in enumerate(zip(v["snaps"], l)):
                d = dist_diff(w, x)
                if d:
                    tag, _, rest = d.partition(":")
                    return f"{tag}: member {i}:{rest}"
            return None

        feat = lambda v: "single-subsystem-multi-digit" if any(multidigit_single(s) for s in v["snaps"]) else ""  # noqa: E731
        store.register(Kind("dist", lambda v, t: DM.save_measurement_outcome_distribution(v["objs"][0], t),
                            DM.load_measurement_outcome_distribution, same_one, PATHS3, ["str", "handle"], feature=feat))
        store.register(Kind("dist_list", lambda v, t: DM.save_measurement_outcome_distributions(v["objs"], t),
                            DM.load_measurement_outcome_distributions, same_list, ["str"], ["str", "handle"], feature=feat))
        return st

    def cleanup(self, st):
        st["store"].cleanup()

    def _pick(self, st, ref):
        return st["pool"][ref % len(st["pool"])] if st["pool"] else None

    def _add(self, st, obj, origin):
        ent = {"obj": obj, "snap": snap(obj), "origin": origin, "norm": is_norm([v for _, v in snap(obj)])}
        st["pool"].append(ent)
        return ent

    def invariant(self, ctx, st, step):
        for i, ent in enumerate(st["pool"]):
            with judge(ctx, "malformed-object"):
                now = snap(ent["obj"])
            if sorted(now) != sorted(ent["snap"]):
                ctx.fail("mutated-source", f"{step['op']}", f"pool object {i} ({ent['origin']}) changed during {step['op']}: "
                                                             f"{ent['snap']} -> {now}")

    def resync(self, ctx, st, step):
        for ent in st["pool"]:
            try:
                ent["snap"] = snap(ent["obj"])
            except Exception:  # noqa: BLE001
                pass

    def step(self, ctx, st, step):
        with warnings.catch_warnings():
            warnings.simplefilter("ignore")
            getattr(self, "_do_" + step["op"])(ctx, st, step, step["args"])

    # -- construct
    def _do_new(self, ctx, st, step, a):
        D = st["D"]
        items = [(tuple(k), w) for k, w in a["items"]]
        inv = a.get("invalid")
        if inv == "empty":
            inp = {}
        else:
            if inv == "negative":
                # clearly negative, or negative by a hair: a probability below zero is below zero
                neg = [lambda w: -abs(w) - 0.1, lambda w: -1e-13, lambda w: -1e-17, lambda w: -5e-324, lambda w: -1e-9][ctx.rng(step).randrange(5)]
                items = [(k, neg(w) if i == 0 else w) for i, (k, w) in enumerate(items)]
            if inv == "all-zero":
                items = [(k, 0) for k, w in items]
            inp = {key_of(k, a["style"]): w for k, w in items}
            if inv == "ragged":
                extra = tuple(items[0][0]) + (0,)
                inp[key_of(extra, a["style"] if a["style"] != "bits" or True else "tuple")] = 0.5
                if len(inp) < 2:
                    inv = None
        before = dict(inp)
        ok, obj = call(D.MeasurementOutcomeDistribution, inp, a["normalize"]) if a["normalize"] is False else call(D.MeasurementOutcomeDistribution, inp)
        ctx.called("MeasurementOutcomeDistribution")
        if inp != before or list(inp.keys()) != list(before.keys()):
            ctx.fail("mutated-argument", "ctor", f"constructor changed its input dictionary: {before} -> {inp}")
        if inv in ("empty", "negative", "ragged") or (inv == "all-zero" and a["normalize"]):
            if ok:
                ctx.fail("unexpected-accept", f"ctor:{inv}", f"constructor accepted {inv} input {inp}")
            ctx.probe("ctor-reject")
            ctx.log("new", "rejected", _sig=inv)
            return
        if inv == "all-zero":
            ctx.log("new", "all-zero-unnormalised", ok=ok)
            if ok:
                self._add(st, obj, "new")
            return
        if not ok:
            ctx.fail("unexpected-reject", f"ctor:{type(obj).__name__}", f"constructor rejected valid input {inp}: {obj}")
        with judge(ctx, "malformed-object"):
            got = obj.distribution_dict
            if sorted(tuple(k) for k in got.keys()) != sorted(k for k, _ in items) or any(not isinstance(k, tuple) for k in got):
                ctx.fail("refine", "ctor-keys", f"keys {[k for k, _ in items]} -> {list(got.keys())}")
            vals = [got[k] for k, _ in items]
            got = {k: got[k] for k, _ in items}   # (the property does not fix an iteration order)
            total = float(sum(w for _, w in items))
            if any(w == 0 for _, w in items):
                ctx.probe("zero-weight")
            if is_norm([w for _, w in items]):
                ctx.probe("ctor-normalised-as-is")
                want = [w for _, w in items]
            elif a["normalize"]:
                ctx.probe("ctor-rescaled")
                want = [w / total for _, w in items]
            else:
                ctx.probe("ctor-unnormalised-kept")
                want = [w for _, w in items]
            for k, v, w in zip(got, vals, want):
                if not (v >= 0 and abs(v - w) <= 1e-12 * max(1.0, abs(w))):
                    ctx.fail("refine", "ctor-values", f"probability of {k}: {v!r}, expected {w!r} (input {inp})")
            if a["normalize"] and not abs(sum(vals) - 1) <= 2e-9:
                ctx.fail("invariant", "ctor-sum", f"probabilities sum to {sum(vals)!r}")
            if obj.get_number_of_subsystems() != len(items[0][0]):
                ctx.fail("refine", "subsystems", f"get_number_of_subsystems() = {obj.get_number_of_subsystems()}")
        self._add(st, obj, "new")
        ctx.log("new", "ok", n=len(items), style=a["style"])

    # -- marginal
    def _do_marginal(self, ctx, st, step, a):
        ent = self._pick(st, a["d"])
        if ent is None:
            ctx.log("marginal", "noop")
            return
        n = len(ent["snap"][0][0])
        r = ctx.rng(step, a["qs"])
        k = min(a["k"], n)
        qs = r.sample(range(n), k)
        idx = st["pool"].index(ent)
        if idx in st["used_as_source"]:
            ctx.probe("marginal-source-reused")
            ctx.nontrivial = True
        st["used_as_source"].add(idx)
        qs_before = list(qs)
        ok, res = call(ent["obj"].subdistribution, qs)
        ctx.called("subdistribution")
        if qs != qs_before:
            ctx.fail("mutated-argument", "marginal-qubits", f"qubit list changed: {qs_before} -> {qs}")
        if not ok:
            ctx.fail("unexpected-reject", f"marginal:{type(res).__name__}",
                     f"subdistribution({qs}) of {ent['snap']} raised {type(res).__name__}: {res}")
        ctx.probe("marginal")
        if qs != sorted(qs):
            ctx.probe("marginal-reordered")
        if ent["origin"] == "marginal":
            ctx.probe("marginal-of-marginal")
        multid = any(x > 9 for key, _ in ent["snap"] for x in key)
        if multid:
            ctx.probe("marginal-multidigit")
        want = {}
        for key, v in ent["snap"]:
            pk = tuple(key[q] for q in qs)
            want[pk] = want.get(pk, 0.0) + v
        with judge(ctx, "malformed-object"):
            got = res.distribution_dict
            tag = ":multi-digit-outcomes" if multid else ""
            if set(got.keys()) != set(want.keys()) or any(not isinstance(x, tuple) for x in got):
                ctx.fail("refine", f"marginal-keys{tag}", f"marginal on {qs} of {ent['snap']}: keys {sorted(want)} expected, got {list(got.keys())}")
            for pk, v in want.items():
                if not abs(got[pk] - v) <= 1e-12 * max(1.0, v):
                    ctx.fail("refine", f"marginal-values{tag}", f"marginal on {qs}: p{pk} = {got[pk]!r}, expected {v!r}")
        self._add(st, res, "marginal")
        ctx.log("marginal", "ok", qs=qs, src=idx)

    # -- wide supports
    def _do_wide(self, ctx, st, step, a):
        """Two distributions with supports of hundreds to thousands of outcomes: a cluster of a few heavy, neighbouring
        outcomes shared out between the two, and a long tail of light ones.  Laws of the distances, and one marginal
        against the reference.  The objects are dropped afterwards (the pool's snapshots stay small)."""
        import numpy as np

        D = st["D"]
        r = random.Random(a["seed"])
        n = a["n"]
        space = 2 ** n

        def bits(i):
            return tuple((i >> (n - 1 - q)) & 1 for q in range(n))

        c = r.randrange(4, space - 4)
        heavy = r.sample(range(c - 3, c + 4), a["heavy"])
        wa, wb = {}, {}
        for i in heavy:
            (wa if r.random() < 0.5 else wb)[i] = r.choice([0.3, 0.5, 1.0, 2.0]) * 400
        for w, k in ((wa, a["ka"]), (wb, a["kb"])):
            for i in r.sample(range(space), min(k, space)):
                w.setdefault(i, r.random())
            if n > 12:   # both ends of the register's code range
                w.setdefault(0, r.random())
                w.setdefault(space - 1, r.random())
        objs = []
        for w in (wa, wb):
            tot = sum(w.values())
            inp = {key_of(bits(i), a["style"]): v / tot for i, v in w.items()}
            ok, obj = call(D.MeasurementOutcomeDistribution, inp)
            ctx.called("MeasurementOutcomeDistribution")
            if not ok:
                ctx.fail("unexpected-reject", f"ctor-wide:{type(obj).__name__}", f"constructor rejected a normalised input with {len(inp)} outcomes on {n} qubits: {obj}")
            objs.append((obj, {bits(i): v / tot for i, v in w.items()}))
        ctx.probe("wide-support")
        if len(set(wa) | set(wb)) > 1024:
            ctx.probe("wide-support>1024")
        (oa, ma), (ob, mb) = objs
        sig = a["sigma"]
        if isinstance(sig, dict):
            sig = np.array(sig["np"], dtype=float)
        what = f"wide distributions (n={n}, ka={a['ka']}, kb={a['kb']}, heavy={a['heavy']}, seed={a['seed']}, sigma={a['sigma']})"
        ok1, v_ab = call(D.compute_mmd, oa, ob, {"sigma": sig})
        ok2, v_ba = call(D.compute_mmd, ob, oa, {"sigma": sig})
        ok3, v_aa = call(D.compute_mmd, oa, oa, {"sigma": sig})
        ctx.called("compute_mmd")
        for ok, v in ((ok1, v_ab), (ok2, v_ba), (ok3, v_aa)):
            if not ok:
                ctx.fail("unexpected-reject", f"mmd:{type(v).__name__}", f"compute_mmd raised {type(v).__name__}: {v} on {what}")
        with judge(ctx, "malformed-result"):
            v_ab, v_ba, v_aa = float(v_ab), float(v_ba), float(v_aa)
            if not abs(v_ab - v_ba) <= 1e-10 * max(1.0, abs(v_ab)):
                ctx.fail("law", "mmd-symmetry", f"MMD(a,b) = {v_ab!r} but MMD(b,a) = {v_ba!r} for {what}")
            if not v_ab >= -1e-10:
                ctx.fail("law", "mmd-nonnegative", f"MMD = {v_ab!r} for {what}")
            if not abs(v_aa) <= 1e-10:
                ctx.fail("law", "mmd-self-zero", f"MMD(a,a) = {v_aa!r} for {what}")
        ok4, nll = call(D.compute_clipped_negative_log_likelihood, oa, ob, {})
        ok5, js_ab = call(D.compute_jensen_shannon_divergence, oa, ob, {})
        ok6, js_ba = call(D.compute_jensen_shannon_divergence, ob, oa, {})
        ctx.called("compute_clipped_negative_log_likelihood")
        for ok, v, nm in ((ok4, nll, "nll"), (ok5, js_ab, "js"), (ok6, js_ba, "js")):
            if not ok:
                ctx.fail("unexpected-reject", f"{nm}:{type(v).__name__}", f"{nm} raised {type(v).__name__}: {v} on {what}")
        with judge(ctx, "malformed-result"):
            h = -sum(p * math.log(p) for p in ma.values() if p > 0)
            ksize = len(set(ma) | set(mb))
            if not float(nll) >= h - ksize * 1e-9 - 1e-9:
                ctx.fail("law", "nll-entropy-bound", f"NLL(t|m) = {float(nll)!r} < H(t) = {h!r} for {what}")
            if not abs(float(js_ab) - float(js_ba)) <= 1e-10 * max(1.0, abs(float(js_ab))):
                ctx.fail("law", "js-symmetry", f"JS(a,b) = {float(js_ab)!r} but JS(b,a) = {float(js_ba)!r} for {what}")
        # one marginal of the wide distribution against the reference
        qs = r.sample(range(n), min(a["k"], n))
        okm, res = call(oa.subdistribution, list(qs))
        ctx.called("subdistribution")
        if not okm:
            ctx.fail("unexpected-reject", f"marginal:{type(res).__name__}", f"subdistribution({qs}) raised {type(res).__name__}: {res} on {what}")
        want = {}
        for key, v in ma.items():
            pk = tuple(key[q] for q in qs)
            want[pk] = want.get(pk, 0.0) + v
        with judge(ctx, "malformed-object"):
            got = res.distribution_dict
            if set(got.keys()) != set(want.keys()):
                ctx.fail("refine", "marginal-keys", f"marginal on {qs} of {what}: keys {sorted(want)} expected, got {sorted(got.keys())}")
            for pk, v in want.items():
                if not abs(got[pk] - v) <= 1e-9 * max(1.0, v):
                    ctx.fail("refine", "marginal-values", f"marginal on {qs} of {what}: p{pk} = {got[pk]!r}, expected {v!r}")
            now = {tuple(k): float(v) for k, v in oa.distribution_dict.items()}
            if now != ma and any(abs(now.get(k, -1) - v) > 1e-12 for k, v in ma.items()) or len(now) != len(ma):
                ctx.fail("mutated-source", "wide", f"the wide source distribution changed during marginal / distance calls ({what})")
        ctx.nontrivial = True
        ctx.log("wide", "ok", n=n, sup=len(set(ma) | set(mb)), v=v_ab)

    # -- distances
    def _do_distance(self, ctx, st, step, a):
        D = st["D"]
        ea = self._pick(st, a["a"])
        if ea is None:
            ctx.log("distance", "noop")
            return
        n = len(ea["snap"][0][0])
        cands = [e for e in st["pool"] if len(e["snap"][0][0]) == n and e["norm"]]
        if not ea["norm"] or not cands:
            ctx.log("distance", "skip-unnormalised")
            return
        eb = ea if a["self"] else cands[a["b"] % len(cands)]
        kind = a["kind"]
        bits = all(x in (0, 1) for e in (ea, eb) for key, _ in e["snap"] for x in key)
        if kind == "mmd" and not bits:
            kind = "nll"
        if kind == "mmd":
            sig = a["sigma"]
            if isinstance(sig, dict):
                import numpy as np

                sig = np.array(sig["np"], dtype=float)   # bandwidths as a caller-owned float array
                ctx.probe("mmd-numpy-sigma")
            fn, params = D.compute_mmd, {"sigma": sig}
            if not isinstance(a["sigma"], float):
                ctx.probe("mmd-multi-sigma")
        else:
            fn = D.compute_clipped_negative_log_likelihood if kind == "nll" else D.compute_jensen_shannon_divergence
            params = {} if a["epsilon"] is None else {"epsilon": a["epsilon"]}
        params_before = repr(params)

        def run(x, y):
            if a["via_eval"]:
                ctx.probe("distance-via-evaluate")
                return call(D.evaluate_distribution_distance, x["obj"], y["obj"], fn, distance_measure_parameters=params)
            return call(fn, x["obj"], y["obj"], params)

        ok1, v_ab = run(ea, eb)
        ok2, v_ba = run(eb, ea)
        ctx.called(fn.__name__)
        if repr(params) != params_before:
            ctx.fail("mutated-argument", f"{kind}-params", f"parameters changed: {params_before} -> {params!r}")
        if not ok1 or not ok2:
            bad = v_ab if not ok1 else v_ba
            ctx.fail("unexpected-reject", f"{kind}:{type(bad).__name__}", f"{fn.__name__} raised {type(bad).__name__}: {bad} on {ea['snap']} / {eb['snap']}")
        ctx.probe(kind)
        ctx.nontrivial = True
        if ea is eb:
            ctx.probe("distance-self")
        with judge(ctx, "malformed-result"):
            v_ab, v_ba = float(v_ab), float(v_ba)
            if not (math.isfinite(v_ab) and math.isfinite(v_ba)):
                ctx.fail("law", f"{kind}-finite", f"{kind} = {v_ab!r} / {v_ba!r}")
            scale = max(1.0, abs(v_ab))
            if kind == "mmd":
                if not abs(v_ab - v_ba) <= 1e-12 * scale:
                    ctx.fail("law", "mmd-symmetry", f"MMD(a,b) = {v_ab!r} but MMD(b,a) = {v_ba!r} for {ea['snap']} / {eb['snap']} sigma={a['sigma']}")
                if not v_ab >= -1e-12:
                    ctx.fail("law", "mmd-nonnegative", f"MMD = {v_ab!r} for {ea['snap']} / {eb['snap']} sigma={a['sigma']}")
                if ea is eb and v_ab != 0:
                    ctx.fail("law", "mmd-self-zero", f"MMD(a,a) = {v_ab!r}")
                same = dict(ea["snap"]) == dict(eb["snap"])
                if same and not abs(v_ab) <= 1e-12:
                    ctx.fail("law", "mmd-self-zero", f"MMD of equal distributions = {v_ab!r}")
            elif kind == "nll":
                eps = 1e-9 if a["epsilon"] is None else a["epsilon"]
                for (t, m, val) in ((ea, eb, v_ab), (eb, ea, v_ba)):
                    h = -sum(p * math.log(p) for _, p in t["snap"] if p > 0)
                    ksize = len({k for k, _ in t["snap"]} | {k for k, _ in m["snap"]})
                    if not val >= h - ksize * eps - 1e-9:
                        ctx.fail("law", "nll-entropy-bound", f"NLL(t|m) = {val!r} < H(t) = {h!r} (eps={eps}, K={ksize}) for t={t['snap']} m={m['snap']}")
            else:
                if not abs(v_ab - v_ba) <= 1e-12 * scale:
                    ctx.fail("law", "js-symmetry", f"JS(a,b) = {v_ab!r} but JS(b,a) = {v_ba!r}")
        ctx.log("distance", "ok", kind=kind, v=v_ab)

    # -- reads
    def _do_read(self, ctx, st, step, a):
        ent = self._pick(st, a["d"])
        if ent is None:
            ctx.log("read", "noop")
            return
        with judge(ctx, "malformed-object"):
            n = ent["obj"].get_number_of_subsystems()
            repr(ent["obj"])
            vals = [v for _, v in ent["snap"]]
            if n != len(ent["snap"][0][0]):
                ctx.fail("refine", "subsystems", f"get_number_of_subsystems() = {n} for {ent['snap']}")
            if ent["norm"] and not (abs(sum(vals) - 1) <= 1e-9 and all(v >= 0 for v in vals)):
                ctx.fail("invariant", "normalisation", f"probabilities {vals} of a normalised object")
        ctx.log("read", "ok")

    # -- store
    def _do_save(self, ctx, st, step, a):
        ents = [self._pick(st, d) for d in a["ds"]]
        if any(e is None for e in ents) or any(not e["norm"] for e in ents):
            ctx.log("save", "skip")
            return
        kind = "dist_list" if a["list"] else "dist"
        if kind == "dist_list":
            ctx.probe("list-save")
        value = {"objs": [e["obj"] for e in ents], "snaps": [e["snap"] for e in ents]}
        out = st["store"].save(ctx, kind, value, a["path"], a["via"], step.get("fault"))
        if out == "ack":
            ctx.probe("save-load-ok")
            ctx.nontrivial = True

    def _do_load(self, ctx, st, step, a):
        st["store"].load(ctx, "dist", a["path"], a["via"], step.get("fault"))

    def finish(self, ctx, st):
        st["store"].final_durability(ctx)

    # ------------------------------------------------------------ shrinking
    def shrink_step(self, s):
        a = s.get("args", {})
        if s["op"] == "new":
            items = a["items"]
            for i in range(len(items)):
                if len(items) > 1:
                    yield {**s, "args": {**a, "items": items[:i] + items[i + 1:]}}
            if a["style"] != "tuple":
                yield {**s, "args": {**a, "style": "tuple"}}
        if s["op"] == "marginal" and a["k"] > 1:
            yield {**s, "args": {**a, "k": 1}}
        if s["op"] == "distance" and a.get("via_eval"):
            yield {**s, "args": {**a, "via_eval": False}}
        if s["op"] in ("save", "load") and a.get("via") != "str":
            yield {**s, "args": {**a, "via": "str"}}


WORLD = World()
