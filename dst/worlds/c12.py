"""C12 — a wavefunction object is normalised after every operation on it.

History machine over a shared pool of Wavefunction objects with a reference model
(list of entries), rejected-operation atomicity, Dicke/flip checks and save/load
through SimFS with faults.
"""
import cmath
import math
import random

import numpy as np
import sympy

from ..simkit.core import KnownHit, Viol, call, judge, clear_library_caches
from ..simkit.simalloc import SimAlloc
from ..simkit.store import BUFFER_SIZES, LOAD_FAULTS, SAVE_FAULTS, Kind, Store

PID = "C12"
SYMS = ["a", "b", "c"]
TOL_OK = 1e-6   # clearly inside np.isclose(x, 1.0) (1.001e-5)
TOL_BAD = 1e-4  # clearly outside


def _c(v):
    return complex(v[0], v[1])


def _expr(text):
    return sympy.sympify(text, locals={s: sympy.Symbol(s) for s in SYMS})


def _close(x, y, tol=1e-12):
    """|x - y| <= tol for complex numbers, with NaN equal to NaN and inf equal to inf part by part (a wavefunction
    with symbols may legitimately hold such an entry; it must then read back as what was stored)."""
    x, y = complex(x), complex(y)
    for a, b in ((x.real, y.real), (x.imag, y.imag)):
        if a != a or b != b:
            if not (a != a and b != b):
                return False
        elif a in (float("inf"), float("-inf")) or b in (float("inf"), float("-inf")):
            if a != b:
                return False
        elif abs(a - b) > tol:
            return False
    return True


def _is_num(e):
    if isinstance(e, sympy.Basic):
        if e.free_symbols:
            return False
    try:
        complex(e)
        return True
    except Exception:
        return False


class M:
    """Model of one wavefunction: python list of entries (complex or sympy expr)."""

    def __init__(self, entries, symbolic):
        self.entries = list(entries)
        self.symbolic = symbolic  # stored as sympy Matrix in the library

    def free(self):
        out = set()
        if self.symbolic:
            for e in self.entries:
                out |= set(getattr(e, "free_symbols", set()))
        return out

    def mass(self):
        return float(sum(abs(complex(e)) ** 2 for e in self.entries if _is_num(e)))


def classify(entries, symbolic):
    """-> 'accept' | 'reject' | 'grey' for a prospective state."""
    free = set()
    for e in entries:
        free |= set(getattr(e, "free_symbols", set()))
    mass = float(sum(abs(complex(e)) ** 2 for e in entries if _is_num(e)))
    if not free:
        if mass != mass or mass in (float("inf"), float("-inf")):
            return "reject"   # NaN / infinite amplitudes: the squared magnitudes do not sum to 1
        err = abs(mass - 1.0)
        if err <= TOL_OK:
            return "accept"
        if err >= TOL_BAD:
            return "reject"
        return "grey"
    if mass != mass:
        return "grey"   # a NaN next to symbols: the statement only bounds the numeric weight from above
    if mass <= 1.0 - 1e-9:
        return "accept"
    if mass >= 1.0 + 1e-9:
        return "reject"
    return "grey"


def sym_equal(x, y):
    x, y = sympy.sympify(x), sympy.sympify(y)
    if sympy.srepr(x) == sympy.srepr(y):
        return True
    fx, fy = x.free_symbols, y.free_symbols
    if not fx and not fy:
        try:
            return _close(x, y)
        except Exception:
            return False
    if fx != fy:
        # symbols may legitimately vanish (0*a); fall through to numeric probing on the union
        pass
    syms = sorted(fx | fy, key=str)
    for k in range(3):
        pt = {s: 0.37 + 0.41 * k + 0.13 * i for i, s in enumerate(syms)}
        try:
            d = complex(sympy.N((x - y).subs(pt)))
        except Exception:
            return False
        if abs(d) > 1e-9:
            return False
    return True


def snap(obj):
    v = obj._amplitude_vector
    if isinstance(v, np.ndarray):
        return ("nd", tuple(v.shape), v.tobytes())
    return ("sym", tuple(v.shape), tuple(v))


def show(s):
    if s[0] == "nd":
        return f"ndarray{s[1]}{np.frombuffer(s[2], dtype=complex).tolist()}"
    return f"Matrix{s[1]}{list(s[2])}"


def bitrev(i, n):
    return int(format(i, f"0{n}b")[::-1], 2) if n else 0


class World:
    PID = PID
    WATCHDOG_S = 120  # a run of this world takes well under a second; beyond this it is a hang
    TIERS = {
        "quick": {"runs": 4000, "budget_s": 45, "determinism_seeds": 8, "chunk": 100},
        "thorough": {"runs": 400000, "budget_s": 800, "determinism_seeds": 200, "chunk": 400},
    }
    RULE = ("one case = one seeded history (plan) of constructor / assignment / binding / read / Dicke / flip / "
            "save / load steps by 1-3 clients on a shared pool of Wavefunction objects; non-trivial = the run "
            "contains at least one rejected mutation followed by a later state check on the same object, or "
            ">= 3 accepted mutations; distinct = distinct (op, outcome, fault) sequences (sha1)")
    COMPONENTS = {
        "real": ["orquestra.quantum.wavefunction.Wavefunction (constructor, __setitem__, bind, readers, dicke_state, zero_state)",
                 "flip_wavefunction / flip_amplitudes / _get_ordering (lru_cache cleared or warm)",
                 "save_wavefunction / load_wavefunction / utils.convert_array_to_dict / ensure_open",
                 "numpy, sympy, json"],
        "stub": ["disk: SimFS injected as module-global open (write/open/close errors, crash, short reads)",
                 "numpy as seen by the library (SimAlloc): an array-producing call made while an assignment or binding is re-validated can raise MemoryError"],
        "model": ["python list of amplitudes with predicted accept/reject per mutation"],
    }
    ASSUMPTIONS = [
        "numeric tolerance policy: generated data is either within 1e-6 of normalisation (must be accepted) or off by >= 1e-4 (must be rejected); the band in between accepts either outcome but still demands atomicity",
        "symbolic entries are compared structurally (sympy.srepr) against sympify(value written)",
        "no power-loss model: the library never fsyncs and the property does not promise durability beyond process crash",
    ]
    PROBES_EXPECTED = [
        "reject-then-check", "accept-mutation", "slice-assign", "list-assign", "neg-index", "sym-assign",
        "bind-total", "bind-partial", "bind-reject", "bind-self-alias", "dicke", "dicke-invalid", "flip-cold", "flip-warm",
        "save-load-ok", "ctor-reject", "ctor-accept-sym", "grey-band", "torn-file-load", "type-invalid",
        "mask-assign", "drift-step", "value-kind-mismatch", "shared-storage-pair", "flipped-joins-pool",
        "alloc-fault-setitem", "alloc-fault-bind", "ctor-real-input", "numpy-complex-scalar-assigned",
    ]

    # ------------------------------------------------------------ generation
    def gen_plan(self, seed, tier):
        r = random.Random(seed)
        n = r.choice([1, 2, 2, 3, 3, 4])
        faulty = r.random() < 0.5
        cfg = {
            "n": n,
            "clients": r.choice([1, 2, 3]),
            "fs_buffer": r.choice(BUFFER_SIZES),
            "faults": r.choice(["low", "medium"]) if faulty else "none",
            "cache_clear": r.choice([0.0, 0.1, 0.5]),
            # some runs push one object's total weight in ONE direction by many small steps, each well inside the
            # library's tolerance: the invariant must not erode ("after ANY sequence of assignments")
            "drift": r.choice([0, 0, 0, 1, -1]),
        }
        n_steps = r.randint(5, 60 if tier == "quick" else 100)
        weights = {
            "new": 2, "setitem": r.choice([4, 8, 12]), "bind": r.choice([1, 3]), "read": 3, "flip": r.choice([0, 1, 2]),
            "dicke": r.choice([0, 1]), "zero": 0.3, "save": r.choice([0, 1, 2]), "load": r.choice([0, 1, 2]),
            "clear_cache": 0.3, "alias": r.choice([0, 0.6, 1.5]),
        }
        ops, ws = zip(*weights.items())
        steps = []
        for k in range(r.randint(1, 3)):
            steps.append(self._gen_new(r, cfg, force_valid=True))
        while len(steps) < n_steps:
            op = r.choices(ops, ws)[0]
            steps.append(getattr(self, "_gen_" + op)(r, cfg))
        for i, s in enumerate(steps):
            s["client"] = r.randrange(cfg["clients"])
            s["rs"] = r.getrandbits(32)
        return {"format": 1, "property": PID, "world": "wavefn", "seed": seed, "config": cfg, "steps": steps}

    @staticmethod
    def _rand_unit(r, dim):
        v = [complex(r.gauss(0, 1), r.gauss(0, 1)) if r.random() < 0.8 else 0j for _ in range(dim)]
        if all(x == 0 for x in v):
            v[r.randrange(dim)] = 1 + 0j
        nrm = math.sqrt(sum(abs(x) ** 2 for x in v))
        return [x / nrm for x in v]

    def _gen_new(self, r, cfg, force_valid=False):
        dim = 2 ** cfg["n"]
        kind = r.choice(["num", "num", "sym", "mixed", "real"]) if force_valid else r.choices(
            ["num", "sym", "mixed", "badlen", "unnorm", "overmass", "grey", "symnum", "nonfinite", "real", "tiny"], [4, 3, 3, 1, 1, 1, 1, 1, 0.6, 1.5, 0.8])[0]
        if kind == "real":
            # real amplitudes handed over as Python floats / a float64 array (a wavefunction does not have to be born complex)
            v = [complex(x.real) for x in self._rand_unit(r, dim)]
            nrm = math.sqrt(sum(abs(x) ** 2 for x in v)) or 1.0
            if all(x == 0 for x in v):
                v[0], nrm = 1 + 0j, 1.0
            return {"op": "new", "args": {"kind": "real", "entries": [[x.real / nrm, 0.0] for x in v], "real_as": r.choice(["floats", "f64", "f64"])}}
        if kind == "tiny":
            # one amplitude far below the square root of every tolerance in sight, the others carrying the rest
            v = self._rand_unit(r, dim)
            eps = r.choice([1e-5, 3e-6, 1e-7, 1e-9])
            if dim > 1:
                i = r.randrange(dim)
                rest = math.sqrt(sum(abs(x) ** 2 for j, x in enumerate(v) if j != i))
                f = math.sqrt(1 - eps * eps) / rest if rest > 0 else 1.0
                v = [x * f if j != i else complex(eps) * (x / abs(x) if abs(x) > 0 else 1) for j, x in enumerate(v)]
            return {"op": "new", "args": {"kind": "tiny", "entries": [[x.real, x.imag] for x in v]}}
        if kind == "nonfinite":
            v = self._rand_unit(r, dim)
            bad = r.choice([[float("nan"), 0.0], [0.0, float("nan")], [float("inf"), 0.0], [float("-inf"), 0.0]])
            ents = [[x.real, x.imag] for x in v]
            ents[r.randrange(dim)] = bad
            return {"op": "new", "args": {"kind": "nonfinite", "entries": ents}}
        if kind in ("num", "unnorm", "grey", "badlen"):
            v = self._rand_unit(r, dim)
            if kind == "unnorm":
                f = r.choice([0.5, 0.9, 1.1, 2.0, 0.0])
                v = [x * f for x in v]
            if kind == "grey":
                f = math.sqrt(1 + r.choice([-1, 1]) * r.uniform(2e-6, 5e-5))
                v = [x * f for x in v]
            if kind == "badlen":
                v = v + [0j] * r.choice([1, 2]) if r.random() < 0.5 or dim < 2 else v[:-1]
                if dim == 1 or r.random() < 0.2:
                    v = [] if r.random() < 0.5 else v
            return {"op": "new", "args": {"kind": kind, "entries": [[x.real, x.imag] for x in v]}}
        # symbolic kinds: a unit vector whose some entries are replaced by expressions
        v = self._rand_unit(r, dim)
        scale = {"sym": r.uniform(0.2, 0.95), "mixed": r.uniform(0.2, 0.95), "overmass": r.uniform(1.05, 1.5),
                 "symnum": 1.0}[kind]
        entries = []
        nsym = 0
        for i, x in enumerate(v):
            if kind != "symnum" and (r.random() < (0.6 if kind == "sym" else 0.3) or (i == dim - 1 and nsym == 0)):
                entries.append({"e": r.choice(["a", "b", "c", "a*I", "a/2", "a+b", "cos(a)", "b*c", "-c", "a**2"])})
                nsym += 1
            else:
                y = x * scale
                entries.append([y.real, y.imag] if kind != "symnum" else {"e": r.choice(["sqrt(2)/2", "1/2", "0", "3/5", "4/5", "I/2"])})
        if kind == "overmass":
            # make sure numeric mass really exceeds 1
            entries[0] = [1.02, 0.0] if not isinstance(entries[0], dict) or dim > 1 else entries[0]
            if dim > 1 and isinstance(entries[1], dict) is False:
                entries[1] = [0.3, 0.0]
        return {"op": "new", "args": {"kind": kind, "entries": entries}}

    def _gen_zero(self, r, cfg):
        return {"op": "zero", "args": {"n": r.choice([1, 2, 3, 4, 0, -1, 2.0])}}

    def _gen_dicke(self, r, cfg):
        # the run's own register size comes up again and again (those objects join the pool and are mutated by
        # later steps, then the same state is asked for once more); other sizes up to 11 qubits in between
        x = r.random()
        n = cfg["n"] if x < 0.45 else (r.randint(1, 8) if x < 0.88 else r.randint(9, 11))
        k = r.randint(0, n) if r.random() < 0.8 else r.choice([-1, n + 1, n + 3, 1.0, -2])
        if x < 0.45 and r.random() < 0.5:
            k = min(n, 1)
        return {"op": "dicke", "args": {"n": n, "k": k}}

    def _gen_setitem(self, r, cfg):
        dim = 2 ** cfg["n"]
        if cfg.get("drift") and r.random() < 0.6:
            return {"op": "setitem", "args": {"w": 0, "idx": {"int": r.randrange(dim)},
                                              "val": {"mode": "drift", "d": cfg["drift"] * r.uniform(3e-6, 9e-6)}}}
        ik = r.choices(["int", "neg", "slice", "list", "oob", "mask"], [5, 2, 3, 2, 0.5, 1])[0]
        if ik == "mask":
            bits = [r.random() < 0.4 for _ in range(dim)]
            idx = {"mask": bits}
        elif ik == "int":
            idx = {"int": r.randrange(dim)}
        elif ik == "neg":
            idx = {"int": -r.randint(1, dim)}
        elif ik == "oob":
            idx = {"int": r.choice([dim, dim + 3, -dim - 1])}
        elif ik == "slice":
            a = r.randrange(dim)
            b = r.randint(a, dim)
            idx = {"slice": [a, b, r.choice([None, None, 1, 2])]}
            if r.random() < 0.2:
                idx = {"slice": [None, None, None]}
            elif r.random() < 0.15:
                idx = {"slice": [r.choice([None, dim - 1, b]), r.choice([None, a]), r.choice([-1, -2])]}
        else:
            k = r.randint(1, min(dim, 3))
            idx = {"list": r.sample(range(dim), k)}
        mode = r.choices(["phase", "scale", "perm", "raw", "sym", "grey", "renorm", "nonfinite"], [6, 4, 2, 2, 3, 1, 3, 0.5])[0]
        val = {"mode": mode}
        if mode == "phase":
            val["phi"] = r.choice([r.uniform(-math.pi, math.pi), math.pi, 0.0, math.pi / 2])
        elif mode == "scale":
            val["s"] = r.choice([0.0, 0.5, 0.9, 1.1, 2.0, -1.5, 10.0])
        elif mode == "grey":
            val["s"] = math.sqrt(1 + r.choice([-1, 1]) * r.uniform(2e-6, 5e-5))
        elif mode == "raw":
            val["vals"] = [[r.uniform(-1, 1), r.uniform(-1, 1)] for _ in range(4)]
        elif mode == "nonfinite":
            val["mode"] = "raw"
            val["vals"] = [r.choice([[float("nan"), 0.0], [float("inf"), 0.0], [0.0, float("nan")]]) for _ in range(4)]
        elif mode == "sym":
            val["e"] = r.choice(["a", "b", "c", "a*I", "a/2", "a+b", "cos(a)", "1/2", "sqrt(2)/2", "0"])
        elif mode == "renorm":
            # set selected entries so that total numeric mass becomes exactly `target`
            val["target"] = r.choice([1.0, 1.0, 1.0, 0.5, 0.999999, 1.2])
            val["phis"] = [r.uniform(-math.pi, math.pi) for _ in range(4)]
        if "int" in idx and r.random() < 0.1:
            # a container where a scalar is expected: numpy refuses or broadcasts, a sympy Matrix copies SEVERAL
            # entries in starting at the index; whatever happens, a raised error must leave the object untouched
            val["as"] = r.choice(["list1", "list2", "list3", "arr2", "mat2"])
            val["extra"] = [[r.uniform(-1, 1), r.uniform(-1, 1)] for _ in range(2)]
        val["npc"] = r.random() < 0.4
        s = {"op": "setitem", "args": {"w": r.randrange(64), "idx": idx, "val": val}}
        if cfg["faults"] != "none" and r.random() < 0.12:
            # a numpy allocation requested by the library while it re-validates fails (MemoryError)
            s["afault"] = {"kind": "alloc", "at": r.randrange(0, 4)}
        return s

    def _gen_bind(self, r, cfg):
        mode = r.choices(["normalise", "raw", "partial", "violate", "extra", "empty"], [4, 2, 3, 2, 1, 1])[0]
        m = {}
        if mode in ("raw", "violate"):
            for s in SYMS:
                if r.random() < 0.8:
                    m[s] = r.choice([0.0, 0.1, 0.5, 1.0, 2.0, -0.3]) if mode == "raw" else r.choice([1.0, 2.0, 5.0])
        elif mode == "partial":
            s = r.choice(SYMS)
            m[s] = r.choice([0.0, 0.1, 0.3, 1.5])
        elif mode == "extra":
            m = {"zz": 1.0, "a": 0.1}
        s = {"op": "bind", "args": {"w": r.randrange(64), "mode": mode, "map": m,
                                    "thetas": [r.uniform(0, math.pi) for _ in range(3)]}}
        if cfg["faults"] != "none" and r.random() < 0.1:
            s["afault"] = {"kind": "alloc", "at": r.randrange(0, 4)}
        return s

    def _gen_read(self, r, cfg):
        return {"op": "read", "args": {"w": r.randrange(64)}}

    def _gen_flip(self, r, cfg):
        return {"op": "flip", "args": {"w": r.randrange(64), "times": r.choice([1, 2]), "fn": r.choice(["wf", "amps"]),
                                       "clear": r.random() < 0.5}}

    def _gen_alias(self, r, cfg):
        return {"op": "alias", "args": {"w": r.randrange(64)}}

    def _gen_clear_cache(self, r, cfg):
        return {"op": "clear_cache", "args": {}}

    def _fault(self, r, cfg, kinds):
        p = {"none": 0.0, "low": 0.15, "medium": 0.4}[cfg["faults"]]
        if r.random() < p:
            return {"kind": r.choice(kinds), "at": r.randrange(0, 12), "frac": r.random()}
        return None

    def _gen_save(self, r, cfg):
        s = {"op": "save", "args": {"w": r.randrange(64), "path": f"/d/wf{r.randrange(3)}.json",
                                    "via": r.choice(["str", "bytes", "pathlike"])}}
        f = self._fault(r, cfg, SAVE_FAULTS)
        if f:
            s["fault"] = f
        return s

    def _gen_load(self, r, cfg):
        s = {"op": "load", "args": {"path": f"/d/wf{r.randrange(3)}.json",
                                    "via": r.choice(["str", "bytes", "pathlike", "handle"])}}
        f = self._fault(r, cfg, LOAD_FAULTS)
        if f:
            s["fault"] = f
        return s

    def sample(self, plan):
        return {"seed": plan["seed"], "config": plan["config"],
                "steps": [{k: s[k] for k in ("op", "args", "fault", "client") if k in s} for s in plan["steps"][:12]],
                "n_steps": len(plan["steps"])}

    # ------------------------------------------------------------ execution
    def init(self, ctx, plan):
        from orquestra.quantum import wavefunction as wfmod
        from orquestra.quantum import utils as umod

        st = {"pool": [], "wfmod": wfmod, "pending_reject": set(), "accepted": 0}
        clear_library_caches()
        clear_library_caches()
        store = Store(ctx, plan["config"].get("fs_buffer", 4096))
        W = wfmod.Wavefunction

        def same(ctx_, orig, loaded):
            if not isinstance(loaded, W):
                return f"type:{type(loaded).__name__}"
            a = np.asarray(loaded.amplitudes).reshape(-1)
            if len(a) != len(orig):
                return f"length:{len(a)} != {len(orig)}"
            for i, (x, y) in enumerate(zip(a, orig)):
                if not _is_num(y):
                    # the candidate is a symbolic wavefunction (its own save was refused): whatever was loaded, it is
                    # not that one - a difference, not an error of the comparison
                    return f"amplitude:{i}: loaded {x!r}, candidate entry {y!r} is symbolic"
                if complex(x) != complex(y):
                    return f"amplitude:{i}: {complex(x)!r} != {complex(y)!r}"
            return None

        store.register(Kind("wavefunction", lambda v, t: wfmod.save_wavefunction(v["obj"], t),
                            wfmod.load_wavefunction, lambda c, o, l: same(c, o["amps"], l),
                            ["str", "bytes", "pathlike"], ["str", "bytes", "pathlike", "handle"],
                            may_refuse=lambda v: v["symbolic"]))
        st["store"] = store
        # numpy as seen by the library: array-producing entry points used while (re)validating can fail
        st["alloc"] = SimAlloc(extra=("sum", "abs", "isclose", "copy", "array_equal", "conj", "real", "imag")).install()
        return st

    def cleanup(self, st):
        st["alloc"].restore()
        st["store"].cleanup()

    # -- helpers
    def _pick(self, st, ref):
        if not st["pool"]:
            return None
        return st["pool"][ref % len(st["pool"])]

    def _check_obj(self, ctx, ent, where):
        obj, m = ent["obj"], ent["m"]
        with judge(ctx):
            v = obj._amplitude_vector
            if isinstance(v, np.ndarray):
                flat = [complex(x) for x in v.reshape(-1)]
                sym = False
            else:
                flat = list(v)
                sym = True
            ctx.check(len(flat) == len(m.entries), "refine", "length", f"{where}: length {len(flat)} != model {len(m.entries)}")
            ctx.check(bin(len(flat)).count("1") == 1, "invariant", "length-not-power-of-two", f"{where}: {len(flat)} amplitudes")
            for i, (x, y) in enumerate(zip(flat, m.entries)):
                if sym:
                    ok = sym_equal(x, y)
                else:
                    ok = _is_num(y) and _close(x, y, 0.0)
                    if not ok and _is_num(y) and ent.get("approx"):
                        ok = _close(x, y)
                if not ok:
                    ctx.fail("refine", "entry", f"{where}: entry {i} is {x!r}, model says {y!r}")
            # the invariant itself, judged on the *actual* content
            free = set()
            if sym:
                for e in flat:
                    free |= set(getattr(e, "free_symbols", set()))
            mass = float(sum(abs(complex(e)) ** 2 for e in flat if _is_num(e)))
            if not free:
                ctx.check(abs(mass - 1.0) < TOL_BAD, "invariant", "not-normalised", f"{where}: sum |a|^2 = {mass!r}")
            else:
                # (a NaN next to symbols does not "exceed 1": the statement only bounds the numeric weight from above)
                ctx.check(not (mass > 1.0 + 1e-9), "invariant", "numeric-mass-exceeds-one", f"{where}: numeric mass {mass!r}")

    def invariant(self, ctx, st, step):
        seen = set()
        for k, ent in enumerate(st["pool"]):
            if id(ent["obj"]) in seen:
                continue
            seen.add(id(ent["obj"]))
            stamp = (snap(ent["obj"]), tuple(ent["m"].entries))
            if ent.get("verified") == stamp:
                continue
            ent["verified"] = stamp
            self._check_obj(ctx, ent, f"pool[{k}] after step {ctx.step_i} ({step['op']})")
        if st["pending_reject"]:
            ctx.probe("reject-then-check")
            ctx.nontrivial = True
            st["pending_reject"].clear()
        if st["accepted"] >= 3:
            ctx.nontrivial = True

    def resync(self, ctx, st, step):
        # after a known finding: adopt the library's state as the model's
        for ent in st["pool"]:
            v = ent["obj"]._amplitude_vector
            if isinstance(v, np.ndarray):
                ent["m"].entries[:] = [complex(x) for x in v.reshape(-1)]
                ent["m"].symbolic = False
            else:
                ent["m"].entries[:] = list(v)
                ent["m"].symbolic = True

    # -- steps
    def step(self, ctx, st, step):
        getattr(self, "_do_" + step["op"])(ctx, st, step, step["args"])

    def _build_entries(self, specs):
        out = []
        for e in specs:
            out.append(_expr(e["e"]) if isinstance(e, dict) else _c(e))
        return out

    def _do_new(self, ctx, st, step, a):
        W = st["wfmod"].Wavefunction
        entries = self._build_entries(a["entries"])
        has_expr = any(isinstance(e, sympy.Basic) for e in entries)
        free = set()
        for e in entries:
            free |= set(getattr(e, "free_symbols", set()))
        symbolic = bool(free)  # sympy numbers alone convert to a numeric array
        arg = entries if (has_expr or ctx.rng(step).random() < 0.5) else np.array(entries, dtype=complex)
        if a.get("real_as") and not has_expr:
            arg = [float(complex(e).real) for e in entries]
            if a["real_as"] == "f64":
                arg = np.array(arg, dtype=np.float64)
            ctx.probe("ctor-real-input")
        ok, res = call(W, arg)
        ctx.called("Wavefunction()")
        lenok = bin(len(entries)).count("1") == 1
        pred = classify(entries, symbolic) if lenok else "reject"
        if pred == "grey":
            ctx.probe("grey-band")
        if ok:
            ctx.check(pred != "reject", "unexpected-accept", "constructor",
                      f"constructor accepted {a['kind']} vector {entries!r} (len ok: {lenok})")
            if symbolic:
                model = M([sympy.sympify(e) for e in entries], True)
                ctx.probe("ctor-accept-sym")
            else:
                model = M([complex(e) for e in entries], False)
            st["pool"].append({"obj": res, "m": model, "approx": has_expr and not symbolic})
            ctx.log("new", "accepted", kind=a["kind"], n=len(entries))
        else:
            ctx.check(pred != "accept", "unexpected-reject", "constructor",
                      f"constructor rejected valid {a['kind']} vector {entries!r}: {type(res).__name__}: {res}")
            ctx.probe("ctor-reject")
            ctx.log("new", "rejected", kind=a["kind"], exc=type(res).__name__)

    def _do_alias(self, ctx, st, step, a):
        """A second Wavefunction built on the amplitudes of an existing numeric one.  The constructor keeps a complex
        ndarray as it is, so both objects live on ONE array (by design): whatever happens to one - an accepted
        assignment, a rejected one and its rollback - the other must stay a valid wavefunction as well."""
        ent = self._pick(st, a["w"])
        if ent is None or ent["m"].symbolic or not isinstance(ent["obj"]._amplitude_vector, np.ndarray):
            ctx.log("alias", "noop")
            return
        W = st["wfmod"].Wavefunction
        ok, res = call(W, ent["obj"].amplitudes)
        ctx.called("Wavefunction(amplitudes of another)")
        ctx.check(ok, "unexpected-reject", "constructor-from-amplitudes", lambda: f"Wavefunction(w.amplitudes) raised {res!r}")
        if res._amplitude_vector is ent["obj"]._amplitude_vector:
            ctx.probe("shared-storage-pair")
            st["pool"].append({"obj": res, "m": ent["m"], "approx": ent.get("approx")})  # one model for both
        else:
            st["pool"].append({"obj": res, "m": M(list(ent["m"].entries), False), "approx": ent.get("approx")})
        ctx.log("alias", "ok")

    def _do_zero(self, ctx, st, step, a):
        W = st["wfmod"].Wavefunction
        n = a["n"]
        import warnings
        with warnings.catch_warnings():
            warnings.simplefilter("ignore")
            ok, res = call(W.zero_state, n)
        valid = int(n) >= 1
        if ok:
            ctx.check(valid, "unexpected-accept", "zero_state", f"zero_state({n!r}) returned")
            with judge(ctx):
                amps = [complex(x) for x in np.asarray(res.amplitudes).reshape(-1)]
                ctx.check(amps == [1 + 0j] + [0j] * (2 ** int(n) - 1), "refine", "zero_state", f"zero_state({n}) = {amps}")
            st["pool"].append({"obj": res, "m": M(amps, False)})
        else:
            ctx.check(not valid, "unexpected-reject", "zero_state", f"zero_state({n!r}) raised {res!r}")
        ctx.log("zero", "ok" if ok else "rejected", n=n)

    def _do_dicke(self, ctx, st, step, a):
        W = st["wfmod"].Wavefunction
        n, k = a["n"], a["k"]
        ok, res = call(W.dicke_state, n, k)
        ctx.called("dicke_state")
        valid = isinstance(k, int) and 0 <= k <= n
        if not valid:
            ctx.probe("dicke-invalid")
            ctx.check(not ok, "unexpected-accept", "dicke", f"dicke_state({n}, {k!r}) returned instead of raising")
            ctx.log("dicke", "rejected", n=n, k=k)
            return
        ctx.check(ok, "unexpected-reject", "dicke", lambda: f"dicke_state({n}, {k}) raised {type(res).__name__}: {res}")
        ctx.probe("dicke")
        with judge(ctx):
            p = np.asarray(res.get_probabilities(), dtype=float).reshape(-1)
            ctx.check(len(p) == 2 ** n, "refine", "dicke-length", f"dicke({n},{k}) has {len(p)} amplitudes")
            cnt = math.comb(n, k)
            for i in range(2 ** n):
                want = 1.0 / cnt if bin(i).count("1") == k else 0.0
                if abs(p[i] - want) > 1e-12:
                    ctx.fail("refine", "dicke-support", f"dicke({n},{k}): p[{i}]={p[i]!r}, expected {want!r}")
        ctx.log("dicke", "ok", n=n, k=k)
        if n <= 4:
            st["pool"].append({"obj": res, "m": M([complex(x) for x in np.asarray(res.amplitudes).reshape(-1)], False)})

    def _resolve_idx(self, idx, dim):
        if "int" in idx:
            return idx["int"], ([idx["int"] % dim] if -dim <= idx["int"] < dim else None)
        if "slice" in idx:
            s = slice(*idx["slice"])
            return s, list(range(dim))[s]
        if "mask" in idx:
            bits = (list(idx["mask"]) + [False] * dim)[:dim]
            return np.array(bits, dtype=bool), [i for i, b in enumerate(bits) if b]
        lst = [i % dim for i in idx["list"]]
        # keep distinct
        seen = []
        for i in lst:
            if i not in seen:
                seen.append(i)
        return seen, seen

    def _do_setitem(self, ctx, st, step, a):
        ent = self._pick(st, a["w"])
        if ent is None:
            ctx.log("setitem", "noop")
            return
        obj, m = ent["obj"], ent["m"]
        dim = len(m.entries)
        key, positions = self._resolve_idx(a["idx"], dim)
        val = a["val"]
        mode = val["mode"]
        if "slice" in a["idx"]:
            ctx.probe("slice-assign")
        if "list" in a["idx"]:
            ctx.probe("list-assign")
        if "int" in a["idx"] and a["idx"]["int"] < 0:
            ctx.probe("neg-index")
        if "mask" in a["idx"]:
            ctx.probe("mask-assign")
        before = snap(obj)
        kind_mismatch = False
        # ---- compute the value(s) from the recipe and the model state
        type_invalid = False
        if positions is None:
            newvals, arg = None, 0.5
            type_invalid = True
        else:
            olds = [m.entries[p] for p in positions]
            if mode == "phase":
                f = cmath.exp(1j * val["phi"])
                newvals = [o * f if _is_num(o) and not m.symbolic else (sympy.sympify(o) * sympy.sympify(f) if m.symbolic else o * f) for o in olds]
            elif mode in ("scale", "grey"):
                newvals = [(complex(o) * val["s"]) if not m.symbolic else sympy.sympify(o) * val["s"] for o in olds]
            elif mode == "drift":
                # raise/lower the total weight by d through one entry (phase kept); needs a numeric entry
                o = olds[0]
                if _is_num(o) and not m.symbolic:
                    o = complex(o)
                    w2 = abs(o) ** 2 + val["d"]
                    newvals = [(o / abs(o)) * math.sqrt(w2) if abs(o) > 0 and w2 > 0 else complex(math.sqrt(max(w2, 0.0)))]
                    ctx.probe("drift-step")
                else:
                    newvals = [o]
            elif mode == "perm":
                newvals = olds[1:] + olds[:1]
            elif mode == "raw":
                newvals = [_c(val["vals"][i % 4]) for i in range(len(positions))]
            elif mode == "renorm":
                others = sum(abs(complex(e)) ** 2 for i, e in enumerate(m.entries) if i not in positions and _is_num(e))
                rest = val["target"] - others
                if rest < 0 or not positions:
                    newvals = [0j for _ in positions]
                else:
                    amp = math.sqrt(rest / len(positions))
                    newvals = [amp * cmath.exp(1j * val["phis"][i % 4]) for i in range(len(positions))]
            else:  # sym
                newvals = [_expr(val["e"]) for _ in positions]
                ctx.probe("sym-assign")
            if m.symbolic:
                newvals = [sympy.sympify(v) for v in newvals]
                if not ("int" in a["idx"]):
                    type_invalid = True  # sympy Matrix: flat slice/list assignment is not supported uniformly
            else:
                if getattr(obj._amplitude_vector, "ndim", 1) != 1 and "int" not in a["idx"]:
                    # a totally bound wavefunction keeps a (2^n, 1) array: flat slice/list values do not
                    # broadcast; the property does not promise such assignments succeed, only atomicity
                    type_invalid = True
                if any(isinstance(v, sympy.Basic) and v.free_symbols for v in newvals):
                    type_invalid = True
                else:
                    newvals = [complex(v) for v in newvals]
            if "int" in a["idx"] and "as" in val and not type_invalid:
                more = [_c(x) for x in val["extra"]]
                seq = [newvals[0]] + ([] if val["as"] == "list1" else more[:1] if val["as"].endswith("2") else more)
                arg = {"l": list, "a": lambda q: np.array([complex(x) for x in q]) if not m.symbolic else list(q),
                       "m": lambda q: sympy.Matrix(q)}[val["as"][0]](seq)
                type_invalid = kind_mismatch = True
                ctx.probe("value-kind-mismatch")
            elif "int" in a["idx"]:
                arg = newvals[0]
                if val.get("npc") and isinstance(arg, complex):
                    arg = np.complex128(arg)   # a numpy scalar, as arithmetic on arrays hands them out
                    ctx.probe("numpy-complex-scalar-assigned")
            else:
                arg = list(newvals) if ctx.rng(step).random() < 0.5 or m.symbolic or type_invalid else np.array(newvals, dtype=complex)
                if not positions:
                    arg = []
        # ---- perform
        st["alloc"].begin_call(step.get("afault"))
        try:
            ok, res = call(obj.__setitem__, key, arg)
        finally:
            alloc_fired = st["alloc"].end_call()
        ctx.called("Wavefunction.__setitem__")
        after = snap(obj)
        if alloc_fired:
            ctx.fault("alloc-fault")
            ctx.probe("alloc-fault-setitem")
            if not ok:
                # the assignment died of a failed allocation.  Whatever it was going to be - accepted or rejected - the
                # object must be a state the history allows: exactly as before, or (only if the assignment was a legal
                # one) exactly as the completed assignment leaves it.  Anything else is a half-done mutation.
                adopted = False
                if after != before and positions is not None and newvals is not None and not type_invalid:
                    prospective = list(m.entries)
                    for p, v in zip(positions, newvals):
                        prospective[p] = v
                    if classify(prospective, m.symbolic) != "reject":
                        saved = list(m.entries)
                        m.entries[:] = prospective
                        try:
                            self._check_obj(ctx, ent, "after an assignment that died of a failed allocation")
                            adopted = True
                            ctx.probe("alloc-fault-assignment-kept")
                        except (Viol, KnownHit):
                            m.entries[:] = saved
                if after != before and not adopted:
                    ctx.fail("rollback", "setitem-alloc-fault",
                             f"assignment raised {type(res).__name__} after a failed allocation and left the object changed "
                             f"(neither the old nor a legal new state): {show(before)} -> {show(after)}")
                ctx.log("setitem", "alloc-fault", exc=type(res).__name__, kept=adopted)
                return
            ctx.probe("alloc-fault-survived")
        if type_invalid and kind_mismatch:
            # the library decides what such an assignment means; the property only demands that a raised error leaves
            # the object exactly as it was, and that an accepted one leaves a valid object (checked by the invariant
            # on the actual content after adopting it)
            if not ok and after != before:
                ctx.fail("rollback", "value-kind-mismatch-changed-object",
                         f"assignment w[{a['idx']['int']}] = {arg!r} raised {type(res).__name__} ({res}) but the object changed: "
                         f"{show(before)} -> {show(after)}")
            if ok and after != before:
                v = obj._amplitude_vector
                if isinstance(v, np.ndarray):
                    m.entries[:] = [complex(x) for x in v.reshape(-1)]
                else:
                    m.entries[:] = list(v)
            ctx.log("setitem", "kind-mismatch", ok=ok, exc=None if ok else type(res).__name__)
            return
        if type_invalid:
            ctx.probe("type-invalid")
            # must leave the object either untouched or consistently updated; verified by the invariant.
            if after != before:
                # adopt if it is exactly the model update, otherwise the refine check will flag it
                if positions is not None and newvals is not None:
                    for p, v in zip(positions, newvals):
                        m.entries[p] = v
            ctx.check(ok or after == before or True, "rollback", "type-invalid", "")
            if not ok and after != before:
                ctx.fail("rollback", "type-invalid-assignment-changed-object",
                         f"assignment raised {type(res).__name__} but the object changed: {show(before)} -> {show(after)}")
            ctx.log("setitem", "type-invalid", ok=ok, exc=None if ok else type(res).__name__)
            return
        prospective = list(m.entries)
        for p, v in zip(positions, newvals):
            prospective[p] = v
        pred = classify(prospective, m.symbolic)
        if pred == "grey":
            ctx.probe("grey-band")
        if ok:
            ctx.check(pred != "reject", "unexpected-accept", "setitem",
                      lambda: f"assignment {a['idx']} <- {newvals!r} accepted although it breaks normalisation; state {after}")
            m.entries[:] = prospective
            st["accepted"] += 1
            ctx.probe("accept-mutation")
            ctx.log("setitem", "accepted", idx=a["idx"], mode=mode)
        else:
            if after != before:
                kind = "slice" if "slice" in a["idx"] else ("list" if "list" in a["idx"] else ("mask" if "mask" in a["idx"] else "int"))
                ctx.fail("rollback", f"setitem-{kind}-{'sym' if m.symbolic else 'num'}",
                         f"rejected assignment ({type(res).__name__}) left the object changed: {show(before)} -> {show(after)}")
            ctx.check(pred != "accept", "unexpected-reject", "setitem",
                      lambda: f"valid assignment {a['idx']} <- {newvals!r} raised {type(res).__name__}: {res}")
            st["pending_reject"].add(id(obj))
            ctx.log("setitem", "rejected", idx=a["idx"], mode=mode, exc=type(res).__name__)

    def _do_bind(self, ctx, st, step, a):
        ent = self._pick(st, a["w"])
        if ent is None:
            ctx.log("bind", "noop")
            return
        obj, m = ent["obj"], ent["m"]
        free = sorted(m.free(), key=str)
        mode = a["mode"]
        if mode == "normalise" and free:
            # give the bare-symbol entries the missing mass
            rest = max(0.0, 1.0 - m.mass())
            bare = [e for e in m.entries if isinstance(e, sympy.Symbol)]
            smap = {}
            if bare and len(set(bare)) == len(bare) and set(bare) == set(free):
                ws = [abs(math.cos(t)) + 0.1 for t in a["thetas"][: len(bare)]] + [1.0] * max(0, len(bare) - 3)
                tot = sum(w * w for w in ws[: len(bare)])
                for s, w in zip(bare, ws):
                    smap[s] = math.sqrt(rest) * w / math.sqrt(tot)
            else:
                smap = {s: 0.0 for s in free}
        else:
            smap = {sympy.Symbol(k): v for k, v in a["map"].items()}
        before = snap(obj)
        map_before = dict(smap)
        st["alloc"].begin_call(step.get("afault"))
        try:
            ok, res = call(obj.bind, smap)
        finally:
            alloc_fired = st["alloc"].end_call()
        ctx.called("Wavefunction.bind")
        ctx.check(snap(obj) == before, "mutated-receiver", "bind", f"bind changed its receiver: {show(before)} -> {show(snap(obj))}")
        ctx.check(smap == map_before, "mutated-argument", "bind-map", "bind changed the symbol map")
        if alloc_fired:
            ctx.fault("alloc-fault")
            ctx.probe("alloc-fault-bind")
            if not ok:
                ctx.log("bind", "alloc-fault", exc=type(res).__name__)   # reported; the receiver was checked above
                return
        if not free:
            ctx.check(ok, "unexpected-reject", "bind-numeric", lambda: f"bind on a symbol-free wavefunction raised {res!r}")
            if res is obj:
                ctx.probe("bind-self-alias")
                st["pool"].append({"obj": res, "m": m, "approx": ent.get("approx")})
            ctx.log("bind", "self")
            return
        prospective = [sympy.sympify(e).subs(smap) for e in m.entries]
        rest_free = set()
        for e in prospective:
            rest_free |= set(e.free_symbols)
        evaluable = all(_is_num(e) or e.free_symbols for e in prospective)
        if not evaluable:
            ctx.log("bind", "not-evaluable", ok=ok)
            return
        pred = classify(prospective, True)
        if pred == "grey":
            ctx.probe("grey-band")
        if ok:
            ctx.check(pred != "reject", "unexpected-accept", "bind",
                      lambda: f"binding {smap} accepted although the result is not normalisable: {prospective}")
            ctx.probe("bind-partial" if rest_free else "bind-total")
            if rest_free:
                nm = M(prospective, True)
                new_ent = {"obj": res, "m": nm}
            else:
                nm = M([complex(e) for e in prospective], False)
                new_ent = {"obj": res, "m": nm, "approx": True}
            with judge(ctx):
                self._check_obj(ctx, new_ent, f"result of bind at step {ctx.step_i}")
            # from here on track the library's own numbers bitwise
            if not rest_free:
                v = res._amplitude_vector
                nm.entries[:] = [complex(x) for x in np.asarray(v).reshape(-1)]
                new_ent["approx"] = False
            st["pool"].append(new_ent)
            ctx.log("bind", "accepted", partial=bool(rest_free))
        else:
            ctx.check(pred != "accept", "unexpected-reject", "bind",
                      lambda: f"valid binding {smap} of {m.entries} raised {type(res).__name__}: {res}")
            ctx.probe("bind-reject")
            st["pending_reject"].add(id(obj))
            ctx.log("bind", "rejected", exc=type(res).__name__)

    def _do_read(self, ctx, st, step, a):
        ent = self._pick(st, a["w"])
        if ent is None:
            ctx.log("read", "noop")
            return
        obj, m = ent["obj"], ent["m"]
        before = snap(obj)
        dim = len(m.entries)
        n = dim.bit_length() - 1
        with judge(ctx):
            ctx.check(len(obj) == dim, "refine", "len", f"len() = {len(obj)} != {dim}")
            ctx.check(obj.n_qubits == n, "refine", "n_qubits", f"n_qubits = {obj.n_qubits} != {n}")
            ctx.check(set(obj.free_symbols) == m.free(), "refine", "free_symbols", f"{obj.free_symbols} != {m.free()}")
            ctx.check(bool(obj == obj), "refine", "eq-reflexive", "w == w is False")
            its = list(iter(obj))
            ctx.check(len(its) == dim, "refine", "iter-length", f"iteration yields {len(its)} items")
            ctx.check((obj == "not a wavefunction") is False, "refine", "eq-foreign", "w == 'str' is not False")
            for i in ([0, dim - 1, -1] if dim > 1 else [0]):  # element reads through w[i]
                x, y = obj[i], m.entries[i]
                if _is_num(y):
                    xs = np.asarray(x, dtype=object).reshape(-1)
                    ctx.check(len(xs) == 1 and _close(xs[0], y), "refine", "getitem",
                              f"w[{i}] = {x!r}, model {y!r}")
                else:
                    ctx.check(sym_equal(x, y), "refine", "getitem-sym", f"w[{i}] = {x!r}, model {y!r}")
            amps = obj.amplitudes
            ctx.called("Wavefunction readers")
            if not m.free():
                flat = np.array(amps, dtype=complex).reshape(-1)
                for i, (x, y) in enumerate(zip(flat, m.entries)):
                    ctx.check(_close(x, y), "refine", "amplitudes", f"amplitudes[{i}] = {x!r}, model {y!r}")
                p = np.array(obj.get_probabilities(), dtype=complex).reshape(-1)
                for i in range(dim):
                    want = abs(complex(m.entries[i])) ** 2
                    ctx.check(abs(p[i] - want) <= 1e-12 * want + 1e-300, "refine", "probabilities", f"p[{i}] = {p[i]!r}, |a|^2 = {want!r}")
                ctx.check(abs(float(np.sum(p).real) - 1.0) < TOL_BAD, "invariant", "probabilities-sum", f"sum p = {np.sum(p)!r}")
                op = obj.get_outcome_probs()
                ctx.check(len(op) == dim, "refine", "outcome-probs-size", f"{len(op)} outcomes")
                for i in range(dim):
                    key = format(i, f"0{n}b")[::-1] if n else format(i, "00b")[::-1]
                    got = op.get(key)
                    ctx.check(got is not None, "refine", "outcome-probs-key", f"missing key {key!r} in {sorted(op)}")
                    g = complex(np.asarray(got).reshape(-1)[0])
                    want = abs(complex(m.entries[i])) ** 2   # "probabilities are the squared magnitudes": also the tiny ones
                    ctx.check(abs(g - want) <= 1e-12 * want + 1e-300, "refine", "outcome-probs", f"{key}: {g!r}, |a|^2 = {want!r}")
            else:
                flat = list(np.asarray(amps, dtype=object).reshape(-1))
                for i, (x, y) in enumerate(zip(flat, m.entries)):
                    ctx.check(sym_equal(x, y), "refine", "amplitudes-sym",
                              f"amplitudes[{i}] = {x!r}, model {y!r}")
                call(obj.get_probabilities)
            str(obj)
        ctx.check(snap(obj) == before, "mutated-receiver", "read", f"a reader changed the object: {show(before)} -> {show(snap(obj))}")
        ctx.log("read", "ok", free=sorted(map(str, m.free())))

    def _do_clear_cache(self, ctx, st, step, a):
        clear_library_caches()
        ctx.log("clear_cache", "ok")

    def _do_flip(self, ctx, st, step, a):
        ent = self._pick(st, a["w"])
        if ent is None:
            ctx.log("flip", "noop")
            return
        wfmod = st["wfmod"]
        obj, m = ent["obj"], ent["m"]
        if a["clear"] or ctx.rng(step).random() < ctx.config.get("cache_clear", 0):
            clear_library_caches()
            ctx.probe("flip-cold")
        else:
            ctx.probe("flip-warm")
        dim = len(m.entries)
        n = dim.bit_length() - 1
        before = snap(obj)
        if a["fn"] == "amps" and not m.symbolic:
            src = [complex(e) for e in m.entries]
            ok, res = call(wfmod.flip_amplitudes, src if ctx.rng(step, 1).random() < 0.5 else np.array(src))
            if ok and a["times"] == 2:
                ok, res = call(wfmod.flip_amplitudes, res)
            get = lambda r_: [complex(x) for x in np.asarray(r_).reshape(-1)]  # noqa: E731
        else:
            ok, res = call(wfmod.flip_wavefunction, obj)
            if ok and a["times"] == 2:
                ok, res = call(wfmod.flip_wavefunction, res)
            get = lambda r_: list(np.asarray(r_.amplitudes, dtype=object).reshape(-1))  # noqa: E731
        ctx.called("flip")
        ctx.check(snap(obj) == before, "mutated-receiver", "flip", "flip changed its argument")
        if not ok:
            # a fully numeric sympy-backed vector cannot be indexed by numpy; only numeric arrays are demanded
            ctx.check(m.symbolic, "unexpected-reject", "flip", lambda: f"flip raised {type(res).__name__}: {res}")
            ctx.log("flip", "refused", exc=type(res).__name__)
            return
        with judge(ctx):
            got = get(res)
            ctx.check(len(got) == dim, "refine", "flip-length", f"{len(got)}")
            for j in range(dim):
                src_i = j if a["times"] == 2 else bitrev(j, n)
                want = m.entries[src_i]
                if m.free():
                    okk = sym_equal(got[j], want)
                else:
                    okk = complex(got[j]) == complex(want)
                ctx.check(okk, "refine", f"flip-{a['times']}", f"flip x{a['times']}: result[{j}] = {got[j]!r}, expected source[{src_i}] = {want!r}")
        if isinstance(res, wfmod.Wavefunction) and res is not obj and (m.free() or not m.symbolic) and len(st["pool"]) < 12:
            # the flipped wavefunction is a wavefunction like any other: later steps bind it, assign to it, read it
            perm = [m.entries[j if a["times"] == 2 else bitrev(j, n)] for j in range(dim)]
            st["pool"].append({"obj": res, "m": M(perm, m.symbolic), "approx": ent.get("approx")})
            ctx.probe("flipped-joins-pool")
        ctx.log("flip", "ok", times=a["times"], fn=a["fn"])

    def _do_save(self, ctx, st, step, a):
        ent = self._pick(st, a["w"])
        if ent is None:
            ctx.log("save", "noop")
            return
        m = ent["m"]
        value = {"obj": ent["obj"], "amps": [complex(e) if _is_num(e) else e for e in m.entries], "symbolic": m.symbolic}
        before = snap(ent["obj"])
        out = st["store"].save(ctx, "wavefunction", value, a["path"], a["via"], step.get("fault"))
        ctx.check(snap(ent["obj"]) == before, "mutated-receiver", "save", "save changed the wavefunction")
        if out == "ack":
            ctx.probe("save-load-ok")

    def _do_load(self, ctx, st, step, a):
        st["store"].load(ctx, "wavefunction", a["path"], a["via"], step.get("fault"))

    def finish(self, ctx, st):
        st["store"].final_durability(ctx)

    # ------------------------------------------------------------ shrinking
    def shrink_step(self, s):
        a = s.get("args", {})
        if s["op"] == "setitem":
            v = a["val"]
            if v["mode"] not in ("scale",):
                yield {**s, "args": {**a, "val": {"mode": "scale", "s": 2.0}}}
            if "slice" in a["idx"] and a["idx"]["slice"] != [0, 2, None]:
                yield {**s, "args": {**a, "idx": {"slice": [0, 2, None]}}}
            if a["w"] != 0:
                yield {**s, "args": {**a, "w": 0}}
        if s["op"] == "new":
            ents = a["entries"]
            if len(ents) > 2:
                yield {**s, "args": {**a, "entries": [[1.0, 0.0], [0.0, 0.0]], "kind": "num"}}
            if len(ents) == 2 and ents != [[1.0, 0.0], [0.0, 0.0]] and all(not isinstance(e, dict) for e in ents):
                yield {**s, "args": {**a, "entries": [[1.0, 0.0], [0.0, 0.0]], "kind": "num"}}
        if "w" in a and a["w"] != 0 and s["op"] != "setitem":
            yield {**s, "args": {**a, "w": 0}}


WORLD = World()
