"""C15 — estimation returns one correctly weighted result per task, in task order.

Scatter/gather around a runner peer: task lists mixing measurable, constant-operator and
zero-shot tasks are estimated through runners that over-deliver, fail on schedule, are
wrapped in the tracker (SimFS) or implement only the bare protocol; every task is
attributable (distinct basis state), and the peer's request ledger is checked.
"""
import copy
import random

import numpy as np
import sympy

from ..simkit import gen, refmodel
from ..simkit.backends import BackendFault, classes
from ..simkit.core import call, judge, clear_library_caches
from ..simkit.simfs import Seams, SimFS
from ..simkit.simalloc import SimAlloc
from ..simkit.simrng import POLICIES, SimRNG

PID = "C15"
KINDS = ["measurable", "const", "const-sum", "zero-shot", "zero-shot-const", "empty-sum"]


class World:
    PID = PID
    WATCHDOG_S = 120  # a run of this world takes well under a second; beyond this it is a hang
    TIERS = {
        "quick": {"runs": 3000, "budget_s": 50, "determinism_seeds": 8, "chunk": 30},
        "thorough": {"runs": 150000, "budget_s": 900, "determinism_seeds": 150, "chunk": 150},
    }
    RULE = ("one case = one seeded session of estimate / exact / bind steps; an estimate step submits a task list (length 0-8, any "
            "ordering of measurable, constant-operator and zero-shot tasks, each measurable task preparing its own basis state) to a "
            "runner peer; non-trivial = at least one estimate step mixing >= 2 task kinds with >= 1 measurable task; distinct = "
            "distinct (op, outcome, task-kind pattern, runner, fault) sequences")
    COMPONENTS = {
        "real": ["estimate_expectation_values_by_averaging (split, evaluate non-measured, merge)", "calculate_exact_expectation_values",
                 "evaluate_estimation_circuits", "EstimationTask", "Measurements.get_expectation_values", "expectation_values_to_real",
                 "BaseCircuitRunner batch fan-out", "SymbolicSimulator", "MeasurementTrackingBackend"],
        "stub": ["ShotBackend (over-delivery, scheduled failure)", "TaggedRunner (bare CircuitRunner protocol)", "SimFS", "SimRNG"],
        "model": ["per-index expected vectors (coefficient x eigenvalue)", "request ledger", "dense quadratic form"],
    }
    ASSUMPTIONS = [
        "shot counts are non-negative ints (None is outside the property's quantifier)",
        "operators act inside the circuit's register",
        "exactness is judged to 1e-12 for basis-state estimates and 1e-9 for quadratic forms",
    ]
    PROBES_EXPECTED = ["mixed-kinds", "const-task", "const-sum-task", "empty-sum-task", "zero-shot-task", "measurable-task", "no-measurable",
                       "over-delivery", "peer-fault", "tracker-runner", "tagged-runner", "symbolic-runner", "exact-step", "bind-step",
                       "empty-task-list", "disk-fault", "exact-zero-shot-task", "bind-shared-circuit", "duplicate-tasks",
                       "bind-idle-upper-qubits", "recycled-result-object", "peer-declines-batches", "exact-after-in-place-reweighting", "exact-after-operator-grown-in-place"]

    def gen_plan(self, seed, tier):
        r = random.Random(seed)
        n = r.choice([1, 2, 3, 3, 4])
        runners = [{"kind": "symbolic", "seed": r.choice([None, 9])}, {"kind": "shot", "extra": r.choice([0, 2, 7])},
                   {"kind": "tagged", "extra": r.choice([0, 3]), "recycle": r.random() < 0.4}]
        if r.random() < 0.6:
            runners.append({"kind": "tracker", "inner": 1, "file": "/d/est.json", "bitstrings": r.random() < 0.5})
        cfg = {"n": n, "runners": runners, "faults": r.choice(["none", "none", "low", "medium"]), "clients": r.randint(1, 2),
               "rng_mode": r.choice(["real", "real", "adversarial"]), "rng_policy": r.choice(POLICIES), "fs_buffer": r.choice([7, 64, 4096])}
        pf = {"none": 0.0, "low": 0.15, "medium": 0.4}[cfg["faults"]]
        steps = []
        for _ in range(r.randint(2, 10)):
            op = r.choices(["estimate", "exact", "bind"], [7, 2, 1.5])[0]
            if op == "estimate":
                k = r.choice([0, 1, 2, 3, 4, 5, 8])
                weights = r.choice([[5, 1, 1, 1, 1, 0.5], [1, 1, 1, 1, 1, 1], [3, 2, 2, 0, 0, 0], [1, 0, 0, 3, 1, 0], [0, 1, 1, 1, 1, 1]])
                tasks = []
                for _ in range(k):
                    kind = r.choices(KINDS, weights)[0]
                    width = r.choice([n, n, max(1, n - 1)])
                    bits = [r.randint(0, 1) for _ in range(width)]
                    if kind in ("measurable", "zero-shot"):
                        spec = gen.rand_pauli(r, width, r.randint(1, 4), ops="Z", constant=0.2, dup=0.25)
                        if all(not t["ops"] for t in spec["terms"]):
                            spec["terms"].append({"ops": {str(r.randrange(width)): "Z"}, "c": r.choice([1.0, -2.0, 0.5])})
                        if r.random() < 0.3:
                            spec = {"kind": "term", "terms": [t for t in spec["terms"] if t["ops"]][:1]}
                        elif r.random() < 0.5:
                            spec["simplify"] = True
                        if r.random() < 0.12:
                            # every Z term carries a zero or next-to-zero weight: the operator is NOT constant for that,
                            # the task is measured and every term gets its value
                            for t_ in spec["terms"]:
                                if t_["ops"]:
                                    t_["c"] = r.choice([0.0, 4e-9, -2e-9, 0.0])
                            spec.pop("simplify", None)
                    elif kind in ("const", "zero-shot-const"):
                        spec = {"kind": r.choice(["term", "sum"]), "terms": [{"ops": {}, "c": r.choice([2.0, -1.5, 0.0, 7, {"c": [0.0, -3.0]}, {"c": [1.5, 1.75]}])}]}
                    elif kind == "const-sum":
                        spec = {"kind": "sum", "terms": [{"ops": {}, "c": r.choice([2.0, -1.0, 0.25, 0.25, {"c": [0.5, -0.25]}])} for _ in range(r.randint(2, 3))]}
                    else:
                        spec = {"kind": "sum", "terms": []}
                    shots = 0 if kind in ("zero-shot", "zero-shot-const") else r.choice([1, 2, 5, 13, 50])
                    if kind in ("const", "const-sum", "empty-sum") and r.random() < 0.3:
                        shots = 0
                    tasks.append({"kind": kind, "bits": bits, "op": spec, "shots": shots})
                for _ in range(r.choice([0, 0, 1, 2])):
                    if tasks:   # equal tasks at several positions (a dataclass: equal by value)
                        tasks.insert(r.randrange(len(tasks) + 1), copy.deepcopy(r.choice(tasks)))
                s = {"op": "estimate", "args": {"runner": r.randrange(8), "tasks": tasks}}
                if r.random() < pf:
                    s["fault"] = r.choice([{"kind": "peer", "at": r.randrange(0, 4)}, {"kind": "peer", "at": 0, "how": "no-batch"},
                                           {"kind": "peer", "at": 0, "how": "no-batch"},
                                           {"kind": "alloc", "at": r.randrange(0, 40)}, {"kind": "alloc", "at": r.randrange(0, 8)},
                                           {"kind": r.choice(["enospc", "eio", "eacces", "eio_close"]), "at": r.randrange(0, 5), "frac": r.random()}])
            elif op == "exact":
                tasks = []
                for _ in range(r.randint(1, 4)):
                    c = gen.rand_circuit(r, n, r.randint(1, 6), wrappers=0.15, powexp=False, custom=0.0, exclude=["U3"], max_arity=2)
                    c["n"] = n
                    tasks.append({"c": c, "op": gen.rand_pauli(r, n, r.randint(1, 3), ops=r.choice(["XYZ", "XYZ", "Z"]), constant=0.15, dup=0.1),
                                  "shots": r.choice([None, None, 0, 0, 1, 25])})
                s = {"op": "exact", "args": {"tasks": tasks, "reweigh": r.random() < 0.5, "grow": r.random() < 0.5,
                                             "grow_with": [r.choice("XY"), r.randrange(n), r.choice([0.5, -1.25, 2.0])]}}
            else:
                k = r.randint(1, 5)
                s = {"op": "bind", "args": {"share": r.random() < 0.4, "tasks": [{"q": r.randrange(n), "gate": r.choice(["RX", "RY", "RZ", "PHASE"]),
                                                       "sym": r.choice(["theta", "phi", "x"]), "expr": r.choice(["{s}", "2*{s}", "{s}+phi"]),
                                                       "val": r.uniform(-3, 3), "extra": r.random() < 0.3, "shots": r.choice([0, 5, None]),
                                                       "pad": r.choice([0, 0, 1, 3])}
                                                      for _ in range(k)]}}
            s["client"] = r.randrange(cfg["clients"])
            s["rs"] = r.getrandbits(32)
            steps.append(s)
        return {"format": 1, "property": PID, "world": "runners", "seed": seed, "config": cfg, "steps": steps}

    def sample(self, plan):
        return {"seed": plan["seed"], "config": plan["config"], "n_steps": len(plan["steps"]),
                "steps": [{k: s[k] for k in ("op", "args", "fault") if k in s} for s in plan["steps"][:2]]}

    def init(self, ctx, plan):
        from orquestra.quantum import utils as umod
        from orquestra.quantum.runners.symbolic_simulator import SymbolicSimulator
        from orquestra.quantum.runners.trackers import MeasurementTrackingBackend

        ShotBackend, _, TaggedRunner = classes()
        cfg = plan["config"]
        clear_library_caches()
        fs = SimFS(cfg.get("fs_buffer", 4096))
        seams = Seams(fs).install()
        rng = SimRNG(cfg["rng_mode"], cfg["rng_policy"], ctx.probes).install()
        runners = []
        try:
            for spec in cfg["runners"]:
                if spec["kind"] == "symbolic":
                    obj = SymbolicSimulator(seed=spec["seed"])
                elif spec["kind"] == "shot":
                    obj = ShotBackend(extra=spec["extra"])
                elif spec["kind"] == "tagged":
                    obj = TaggedRunner(extra=spec["extra"], recycle=bool(spec.get("recycle")))
                else:
                    obj = MeasurementTrackingBackend(runners[spec["inner"]]["obj"], spec["file"], spec["bitstrings"])
                runners.append({"spec": spec, "obj": obj, "requests": []})
            # request ledger: record what each runner is asked for in batch form
            for R in runners:
                orig = R["obj"].run_batch_and_measure

                def wrapper(circuits, n_samples, _orig=orig, _R=R):
                    _R["requests"].append((list(circuits), n_samples if isinstance(n_samples, int) else list(n_samples)))
                    return _orig(circuits, n_samples)

                R["obj"].run_batch_and_measure = wrapper
        except BaseException:
            seams.restore()
            rng.restore()
            raise
        return {"fs": fs, "seams": seams, "rng": rng, "runners": runners, "alloc": SimAlloc().install()}

    def cleanup(self, st):
        st["alloc"].restore()
        st["seams"].restore()
        st["rng"].restore()

    def step(self, ctx, st, step):
        getattr(self, "_do_" + step["op"])(ctx, st, step, step["args"])

    # ------------------------------------------------------------------
    def _do_estimate(self, ctx, st, step, a):
        from orquestra.quantum.api.estimation import EstimationTask
        from orquestra.quantum.estimation import estimate_expectation_values_by_averaging

        R = st["runners"][a["runner"] % len(st["runners"])]
        kind = R["spec"]["kind"]
        ctx.probe(kind + "-runner")
        recycled_before = getattr(R["obj"], "recycled", 0)
        base = st["runners"][R["spec"]["inner"]] if kind == "tracker" else R
        tasks, expect = [], []
        for t in a["tasks"]:
            circ = gen.build_circuit(gen.basis_circuit(t["bits"]))
            width = len(t["bits"])
            terms = [tt for tt in t["op"]["terms"] if all(int(q) < width for q in tt["ops"])]
            spec = {**t["op"], "terms": terms}
            if spec.get("kind") == "term" and not terms:
                spec = {"kind": "term", "terms": [{"ops": {}, "c": 1.0}]}
            op = gen.build_pauli(spec)
            tasks.append(EstimationTask(op, circ, t["shots"]))
            real_terms = [(complex(tm.coefficient), set(tm.qubits)) for tm in op.terms]  # after optional simplify
            is_const = all(not q for _, q in real_terms)
            if is_const:
                expect.append(("const", sum(c for c, _ in real_terms)))
            elif t["shots"] == 0:
                expect.append(("zero", None))
            else:
                expect.append(("meas", [c * refmodel.z_eigenvalue(t["bits"], sorted(q)) for c, q in real_terms]))
        kinds = [e[0] for e in expect]
        for t in a["tasks"]:
            ctx.probe({"measurable": "measurable-task", "const": "const-task", "const-sum": "const-sum-task", "empty-sum": "empty-sum-task",
                       "zero-shot": "zero-shot-task", "zero-shot-const": "zero-shot-task"}[t["kind"]])
        if not tasks:
            ctx.probe("empty-task-list")
        if any(x == y for i, x in enumerate(a["tasks"]) for y in a["tasks"][:i]):
            ctx.probe("duplicate-tasks")
        if len(set(kinds)) >= 2:
            ctx.probe("mixed-kinds")
            if "meas" in kinds:
                ctx.nontrivial = True
        measurable = [(tk.circuit, tk.number_of_shots) for tk, e in zip(tasks, expect) if e[0] == "meas"]
        if not measurable:
            ctx.probe("no-measurable")
        # arm faults
        f = step.get("fault")
        if base["spec"]["kind"] == "shot":
            base["obj"].arm(step["rs"], f["at"] if f and f["kind"] == "peer" else None)
        elif base["spec"]["kind"] == "tagged":
            base["obj"].fail_next = bool(f and f["kind"] == "peer" and f.get("how") != "no-batch")
            base["obj"].batch_unsupported = bool(f and f["kind"] == "peer" and f.get("how") == "no-batch")
        no_batch = base["spec"]["kind"] == "tagged" and base["obj"].batch_unsupported
        st["rng"].begin_step(step["rs"])
        st["fs"].begin_call(f if f and f["kind"] not in ("peer", "alloc") and kind == "tracker" else None)
        st["alloc"].begin_call(f if f and f["kind"] == "alloc" else None)
        mark = len(R["requests"])
        snapshot = [(id(t.operator), id(t.circuit), t.number_of_shots, repr(t.operator), repr(t.circuit)) for t in tasks]
        ok, res = call(estimate_expectation_values_by_averaging, R["obj"], tasks)
        fired = st["fs"].end_call()
        alloc_fired = st["alloc"].end_call()
        if base["spec"]["kind"] == "shot":
            base["obj"].fail_at = None
        elif base["spec"]["kind"] == "tagged":
            base["obj"].fail_next = False
            base["obj"].batch_unsupported = False
        for x in fired:
            ctx.fault(x[0])
        ctx.called("estimate_expectation_values_by_averaging")
        sig = f"{kind}/" + "".join(k[0] for k in kinds)
        if alloc_fired:
            ctx.fault("alloc-fault")
            ctx.probe("alloc-fault")
            if not ok:   # the real simulator died of a failed allocation: the failure is reported, nothing partial is returned
                ctx.log("estimate", "alloc-fault", _sig=sig)
                return
        if not ok and isinstance(res, BackendFault):
            ctx.fault("peer-fault")
            ctx.probe("peer-fault")
            ctx.log("estimate", "peer-fault", _sig=sig)
            return
        if no_batch and measurable:
            ctx.fault("peer-fault")
            ctx.probe("peer-declines-batches")
            if not ok:  # whichever exception reports it
                ctx.log("estimate", "peer-declined-batch", _sig=sig)
                return
            # (an estimator that copes by running the circuits one by one is fine - its answers are judged below)
        if not ok and fired and isinstance(res, OSError):
            ctx.probe("disk-fault")
            ctx.log("estimate", "disk-fault", _sig=sig)
            return
        if not ok:
            bad = [t["kind"] for t in a["tasks"] if t["kind"] in ("const-sum", "empty-sum")]
            ctx.fail("unexpected-reject", "estimate" + (":" + bad[0] if bad else ""),
                     f"estimation of task kinds {[t['kind'] for t in a['tasks']]} raised {type(res).__name__}: {res}")
        # ledger
        reqs = R["requests"][mark:]
        with judge(ctx):
            if not measurable:
                ctx.check(not reqs, "order", "runner-called-without-measurable-task", f"runner was called {len(reqs)} times although no task is measurable")
            elif no_batch:
                pass  # how a coping estimator talks to a peer without batch support is its own business
            else:
                # how the estimator groups its requests is its own business (one batch, one batch per shot count...):
                # taken together they must ask for every measurable circuit exactly once, with at least its shots
                sent = []
                for cs, ns in reqs:
                    ns = [ns] * len(cs) if isinstance(ns, int) else list(ns)
                    ctx.check(len(ns) == len(cs), "order", "request-shape", f"a request with {len(cs)} circuits and {len(ns)} shot counts")
                    sent += list(zip(cs, ns))
                if len(reqs) == 1:
                    ctx.probe("single-batch-request")
                want = list(measurable)
                ctx.check(len(sent) == len(want), "order", "request-circuits",
                          f"{len(sent)} circuits were sent to the runner for {len(want)} measurable tasks")
                left = list(sent)
                for c, n_ in want:
                    hit = next((k for k, (c2, n2) in enumerate(left) if c2 is c and n2 >= n_), None)
                    ctx.check(hit is not None, "order", "request-circuits",
                              f"a measurable task's circuit was not sent to the runner with at least its {n_} shots")
                    left.pop(hit)
        with judge(ctx):
            ctx.check(isinstance(res, list) and len(res) == len(tasks), "order", "result-count", f"{len(res)} results for {len(tasks)} tasks")
            for i, (ev, e, t) in enumerate(zip(res, expect, a["tasks"])):
                ctx.check(ev is not None and hasattr(ev, "values"), "order", "missing-result", f"result {i} is {ev!r}")
                vals = np.asarray(ev.values).reshape(-1)
                if e[0] == "const":
                    tot = complex(np.sum(vals))
                    ctx.check(abs(tot - e[1]) <= 1e-12, "weights", "constant-operator" + (":unsimplified-sum" if t["kind"] in ("const-sum",) else ""),
                              f"task {i} ({t['kind']}, operator {tasks[i].operator!r}) gave {vals}, its constant is {e[1]}")
                elif e[0] == "zero":
                    ctx.check(np.all(vals == 0), "weights", "zero-shot", f"task {i} (zero shots, non-constant) gave {vals}")
                else:
                    ctx.check(len(vals) == len(e[1]), "order", "term-count", f"task {i}: {len(vals)} values for {len(e[1])} terms ({kinds})")
                    for j, (v, w) in enumerate(zip(vals, e[1])):
                        ctx.check(abs(complex(v) - w) <= 1e-12, "order" if len(set(map(tuple, [x["bits"] for x in a["tasks"]]))) > 1 else "weights",
                                  "basis-state-value", f"task {i} term {j}: estimated {v!r}, coefficient*eigenvalue = {w!r} (bits {t['bits']}, op {tasks[i].operator!r}, kinds {kinds})")
                    cor = ev.correlations
                    if cor:
                        cm = np.asarray(cor[0])
                        for x in range(len(e[1])):
                            for y in range(len(e[1])):
                                ctx.check(abs(complex(cm[x, y]) - e[1][x] * e[1][y]) <= 1e-12, "weights", "correlations",
                                          f"task {i}: correlation[{x},{y}] = {cm[x, y]!r}, product of values = {e[1][x] * e[1][y]!r}")
                    cov = ev.estimator_covariances
                    if cov:
                        ctx.check(float(np.max(np.abs(np.asarray(cov[0])))) <= 1e-12, "weights", "covariances", f"task {i}: covariances {cov[0]} for a basis state")
            after = [(id(t.operator), id(t.circuit), t.number_of_shots, repr(t.operator), repr(t.circuit)) for t in tasks]
            ctx.check(after == snapshot, "mutated-argument", "tasks", "estimation changed its task list")
        # the results are the client's: it shifts them in place (offsets, unit conversions) - no later answer may notice
        for ev in res:
            for arr_ in [getattr(ev, "values", None)] + list(getattr(ev, "correlations", None) or []):
                if isinstance(arr_, np.ndarray) and arr_.flags.writeable and arr_.dtype.kind in "fc":
                    arr_ += 7.5
        ctx.probe("results-edited-in-place")
        if base["spec"]["kind"] in ("shot", "tagged") and base["spec"]["extra"] and measurable:
            ctx.probe("over-delivery")
        if getattr(R["obj"], "recycled", 0) > recycled_before:
            ctx.probe("recycled-result-object")
        ctx.log("estimate", "ok", _sig=sig, n_tasks=len(tasks))

    def _do_exact(self, ctx, st, step, a):
        from orquestra.quantum.api.estimation import EstimationTask
        from orquestra.quantum.estimation import calculate_exact_expectation_values

        sim = st["runners"][0]["obj"]
        tasks, want = [], []
        for t in a["tasks"]:
            circ = gen.build_circuit(t["c"])
            n = circ.n_qubits
            op = gen.build_pauli(t["op"])
            ok, state = call(refmodel.run_circuit, circ.operations, n)
            if not ok or abs(float(np.sum(np.abs(state) ** 2)) - 1) > 1e-9:
                continue
            dense = refmodel.pauli_dense(gen.pauli_terms_of(t["op"]), n)
            want.append(complex(np.vdot(state, dense @ state)))
            tasks.append(EstimationTask(op, circ, t.get("shots")))
            if t.get("shots") == 0:
                ctx.probe("exact-zero-shot-task")
        if not tasks:
            ctx.log("exact", "noop")
            return
        st["rng"].begin_step(step["rs"])
        ok, res = call(calculate_exact_expectation_values, sim, tasks)
        ctx.called("calculate_exact_expectation_values")
        ctx.check(ok, "unexpected-reject", "exact", lambda: f"{type(res).__name__}: {res}")
        with judge(ctx):
            ctx.check(len(res) == len(tasks), "order", "exact-result-count", f"{len(res)} results for {len(tasks)} tasks")
            for i, (ev, w) in enumerate(zip(res, want)):
                v = np.asarray(ev.values).reshape(-1)
                ctx.check(len(v) == 1 and abs(complex(v[0]) - w.real) <= 1e-9, "weights", "quadratic-form",
                          f"task {i}: exact value {v}, quadratic form {w!r} for {tasks[i].circuit!r} / {tasks[i].operator!r}")
        # the client re-weights its operator objects in place (coefficient is a public attribute of a term) and asks
        # again: the answer must be the quadratic form of the operator as it is NOW
        if a.get("reweigh") and ok:
            specs = [t for t in a["tasks"]]
            changed = False
            for t_obj in tasks:
                op_ = t_obj.operator
                terms_ = getattr(op_, "terms", None)
                if terms_:
                    terms_[0].coefficient = terms_[0].coefficient * 2 + 1
                    changed = True
                if a.get("grow") and isinstance(terms_, list):
                    # ... and extends it in place (the term list is a public attribute too): e.g. a transverse-field term
                    # added to what was an all-Z operator
                    from orquestra.quantum.operators import PauliTerm
                    gw = a["grow_with"]
                    terms_.append(PauliTerm({gw[1] % max(1, t_obj.circuit.n_qubits): gw[0]}, gw[2]))
                    changed = True
                    ctx.probe("exact-after-operator-grown-in-place")
            if changed:
                want2 = []
                for t_obj in tasks:
                    n_ = t_obj.circuit.n_qubits
                    state = refmodel.run_circuit(t_obj.circuit.operations, n_)
                    terms_now = [(complex(tm.coefficient), {int(q): o for q, o in tm.operations}) for tm in t_obj.operator.terms]
                    dense = refmodel.pauli_dense(terms_now, n_)
                    want2.append(complex(np.vdot(state, dense @ state)))
                ok2, res2 = call(calculate_exact_expectation_values, sim, tasks)
                ctx.check(ok2, "unexpected-reject", "exact", lambda: f"{type(res2).__name__}: {res2}")
                with judge(ctx):
                    for i, (ev, w) in enumerate(zip(res2, want2)):
                        v = np.asarray(ev.values).reshape(-1)
                        ctx.check(len(v) == 1 and abs(complex(v[0]) - w.real) <= 1e-9, "weights", "quadratic-form-after-reweighting",
                                  f"task {i}: after the client re-weighted the operator in place the exact value is {v}, the quadratic form of "
                                  f"the operator as it is now {w!r} ({tasks[i].operator!r})")
                ctx.probe("exact-after-in-place-reweighting")
        ctx.probe("exact-step")
        ctx.log("exact", "ok", _sig=str(len(tasks)))

    def _do_bind(self, ctx, st, step, a):
        from orquestra.quantum.api.estimation import EstimationTask
        from orquestra.quantum.circuits import Circuit, builtin_gate_by_name
        from orquestra.quantum.estimation import evaluate_estimation_circuits
        from orquestra.quantum.operators import PauliTerm

        tasks, maps = [], []
        if a.get("share") and a["tasks"]:
            # one parametrised circuit OBJECT shared by all tasks, scanned over values of the same symbol
            t0 = a["tasks"][0]
            a = {**a, "tasks": [{**t, "sym": t0["sym"], "expr": t0["expr"], "gate": t0["gate"], "q": t0["q"], "pad": t0.get("pad", 0)} for t in a["tasks"]]}
            ctx.probe("bind-shared-circuit")
        shared = None
        for t in a["tasks"]:
            s = sympy.Symbol(t["sym"])
            e = sympy.sympify(t["expr"].format(s=t["sym"]), locals={t["sym"]: s, "phi": sympy.Symbol("phi")})
            # "pad" idle qubits above the highest one a gate touches: the register width is then carried by the
            # circuit object alone and must survive binding ("changes nothing else")
            circ = Circuit([builtin_gate_by_name(t["gate"])(e)(t["q"]), builtin_gate_by_name("X")(0)],
                           (t["q"] + 1 + t["pad"]) if t.get("pad") else None)
            if t.get("pad"):
                ctx.probe("bind-idle-upper-qubits")
            if a.get("share"):
                shared = shared or circ
                circ = shared
            tasks.append(EstimationTask(PauliTerm({t["q"]: "Z"}, 1.5), circ, t["shots"]))
            m = {s: t["val"]}
            if t["extra"]:
                m[sympy.Symbol("unused")] = 1.0
            maps.append(m)
        maps_before = [dict(m) for m in maps]
        ok, res = call(evaluate_estimation_circuits, tasks, maps)
        ctx.called("evaluate_estimation_circuits")
        ctx.check(ok, "unexpected-reject", "bind", lambda: f"{type(res).__name__}: {res}")
        with judge(ctx):
            ctx.check(len(res) == len(tasks), "order", "bind-result-count", f"{len(res)} tasks returned for {len(tasks)}")
            for i, (new, old, m, t) in enumerate(zip(res, tasks, maps, a["tasks"])):
                ctx.check(new.operator is old.operator, "mutated-argument", "bind-operator", f"task {i}: operator replaced")
                ctx.check(new.number_of_shots == old.number_of_shots, "mutated-argument", "bind-shots", f"task {i}: shots changed")
                s = sympy.Symbol(t["sym"])
                e = sympy.sympify(t["expr"].format(s=t["sym"]), locals={t["sym"]: s, "phi": sympy.Symbol("phi")})
                want = e.subs({s: t["val"]})
                got = new.circuit.operations[0].params[0]
                ctx.check(sympy.simplify(sympy.sympify(got) - want) == 0 or abs(complex(sympy.N(sympy.sympify(got) - want, subs={sympy.Symbol("phi"): 0.3}))) < 1e-12,
                          "order", "bind-own-map", f"task {i}: parameter {got!r}, expected {want!r} from its own map {m}")
                ctx.check(new.circuit.n_qubits == old.circuit.n_qubits and len(new.circuit.operations) == 2, "mutated-argument", "bind-circuit-shape",
                          f"task {i}: bound circuit has width {new.circuit.n_qubits} and {len(new.circuit.operations)} operations, the task's circuit {old.circuit.n_qubits} and 2")
                ctx.check(new.circuit.operations[1] == old.circuit.operations[1]
                          and tuple(new.circuit.operations[0].qubit_indices) == tuple(old.circuit.operations[0].qubit_indices)
                          and new.circuit.operations[0].gate.name == old.circuit.operations[0].gate.name,
                          "mutated-argument", "bind-circuit-ops", f"task {i}: binding changed more than the parameter")
                ctx.check(s in old.circuit.free_symbols, "mutated-argument", "bind-input-circuit", f"task {i}: input circuit was bound in place")
            ctx.check(maps == maps_before, "mutated-argument", "bind-maps", "symbol maps changed")
        ctx.probe("bind-step")
        ctx.log("bind", "ok", _sig=str(len(tasks)))

    def shrink_step(self, s):
        a = s["args"]
        if s["op"] == "estimate":
            ts = a["tasks"]
            for i in range(len(ts)):
                yield {**s, "args": {**a, "tasks": ts[:i] + ts[i + 1:]}}
            if a["runner"] != 2:
                yield {**s, "args": {**a, "runner": 2}}


WORLD = World()
