"""C05 — circuits survive JSON serialisation (dict form, real JSON text, files).

Store simulation: circuits and circuit lists are saved to / loaded from a simulated
disk (SimFS) through every handle kind the functions are annotated to accept, with
overwrites (longer by shorter, other kind), failed and crashed saves, and loads of
whatever those left behind.  The comparator walks the original and the loaded object
structurally (independent of the library's ``__eq__``), then demands library equality,
equal free symbols and equal matrices under random symbol assignments.
"""
import json
import math
import random

import numpy as np
import sympy

from ..simkit import gen
from ..simkit.core import WallLimit, call, judge, time_limit
from ..simkit.store import BUFFER_SIZES, LOAD_FAULTS, SAVE_FAULTS, Kind, Store

PID = "C05"

SYMBOL_POOLS = [
    ["theta", "phi"],
    ["theta", "phi", "x", "y"],
    ["beta", "gamma", "S"],
    ["I", "E", "Q", "alpha_1"],
    ["pi", "theta"],
    ["x[3]", "x[0]", "y"],
    ["x[3]", "x[12]", "theta", "beta"],
    ["x", "x[3]"],          # plain + indexed symbol with the same base name
    ["x[3]", "x_3", "x[0]", "x_0"],   # indexed symbols next to plain identifiers that look like a flattened index
    ["y[1]", "y_1", "y1", "theta"],
    ["lambda_", "N", "O", "zeta"],
    ["j", "nan", "inf", "theta"],           # identifiers that numeric-literal parsers also accept
    ["J", "infinity", "NaN", "oo", "zoo"],
]
POW_EXPONENTS = (2, 3, -1, 0, 1, -2, 0.5, -1.5, 2.0)
ALL_VIAS = ["str", "bytes", "pathlike", "handle"]
CHEAP_EXP = {"X", "Y", "Z", "I", "H"}


# ---------------------------------------------------------------- comparator
def _has_float(e):
    return bool(e.atoms(sympy.Float))


def _num_points(symbols, rng, k=3):
    pts = []
    for _ in range(k):
        pts.append({s: sympy.Rational(rng.randint(-40, 40), rng.choice([7, 9, 11, 13])) for s in symbols})
    return pts


def param_diff(p, q, rng):
    """None when equal per the property, else 'tag: detail'."""
    if isinstance(p, bool):
        return None if p == q else f"param-number: {p!r} -> {q!r}"
    if isinstance(p, int):
        try:
            ok = (not getattr(q, "free_symbols", None)) and q == p and int(q) == p and float(q) == float(p)
        except Exception as e:  # noqa: BLE001
            return f"param-number: int {p!r} -> {q!r} ({type(e).__name__})"
        return None if ok else f"param-number: int {p!r} -> {q!r}"
    if isinstance(p, float):
        try:
            if getattr(q, "free_symbols", None):
                return f"param-number: float {p!r} -> expression {q!r}"
            fq = float(q)
        except Exception as e:  # noqa: BLE001
            return f"param-number: float {p!r} -> {q!r} ({type(e).__name__})"
        if fq == p:
            return None
        if p != 0 and abs(fq - p) <= abs(p) * 2.0 ** -52:
            return f"param-float-ulp: float {p!r} -> {fq!r} (one unit in the last place)"
        return f"param-number: float {p!r} -> {fq!r}"
    if isinstance(p, complex):
        try:
            if getattr(q, "free_symbols", None):
                # known finding K6: next to a symbol NAMED I in the same gate, the imaginary unit of a complex literal is
                # read back as that symbol.  Only exactly this is covered: q with Symbol("I") replaced by the imaginary
                # unit is p (or p up to the K5 ulp)
                fs = list(q.free_symbols)
                if len(fs) == 1 and fs[0].name == "I":
                    back = complex(q.subs(fs[0], sympy.I))
                    if all(x == y or (x != 0 and abs(y - x) <= abs(x) * 2.0 ** -52) for x, y in ((p.real, back.real), (p.imag, back.imag))):
                        return f"param-imaginary-unit-read-as-symbol-I: complex {p!r} -> {q!r} (the gate has a parameter symbol named I)"
                return f"param-number: complex {p!r} -> expression {q!r}"
            cq = complex(q)
        except Exception as e:  # noqa: BLE001
            return f"param-number: complex {p!r} -> {q!r} ({type(e).__name__})"
        if cq == p:
            return None
        if all(x == y or (x != 0 and abs(y - x) <= abs(x) * 2.0 ** -52) for x, y in ((p.real, cq.real), (p.imag, cq.imag))):
            return f"param-float-ulp: complex {p!r} -> {cq!r} (one unit in the last place of a component)"
        return f"param-number: complex {p!r} -> {cq!r}"
    if isinstance(p, sympy.Symbol):
        ok = isinstance(q, sympy.Symbol) and q == p and q.name == p.name
        return None if ok else f"param-symbol: {sympy.srepr(p)} -> {sympy.srepr(q) if isinstance(q, sympy.Basic) else repr(q)}"
    if isinstance(p, sympy.Basic):
        if not isinstance(q, (sympy.Basic, int, float)):
            return f"param-expr: {p} -> {q!r} ({type(q).__name__})"
        q = sympy.sympify(q)
        if set(p.free_symbols) != set(q.free_symbols):
            return f"param-expr: free symbols {sorted(map(str, p.free_symbols))} -> {sorted(map(str, q.free_symbols))}"
        if not _has_float(p):
            d = sympy.simplify(sympy.expand(p - q))
            if d == 0:
                return None
            return f"param-expr: {p} -> {q} (difference {d})"
        syms = sorted(p.free_symbols, key=str)
        for pt in _num_points(syms, rng):
            a = complex(sympy.N(p.subs(pt), 30))
            b = complex(sympy.N(q.subs(pt), 30))
            if not (abs(a - b) <= 1e-12 * max(1.0, abs(a))):
                return f"param-sympy-float: {p} -> {q} differ at {pt}: {a!r} vs {b!r}"
        return None
    return f"param-type: unsupported original parameter {p!r}"


def _exprs_equal(a, b):
    if a == b:
        return True
    try:
        return sympy.simplify(sympy.expand(a - b)) == 0
    except Exception:  # noqa: BLE001
        return False


def gate_diff(G, o, l, rng, depth=0):
    if type(o) is not type(l):
        return f"gate-type: {type(o).__name__} -> {type(l).__name__} at depth {depth}"
    if isinstance(o, G.ControlledGate):
        if type(l.num_control_qubits) is not int or o.num_control_qubits != l.num_control_qubits:
            return f"controls: {o.num_control_qubits!r} -> {l.num_control_qubits!r}"
        return gate_diff(G, o.wrapped_gate, l.wrapped_gate, rng, depth + 1)
    if isinstance(o, (G.Dagger, G.Exponential)):
        return gate_diff(G, o.wrapped_gate, l.wrapped_gate, rng, depth + 1)
    if isinstance(o, G.Power):
        same_kind = isinstance(l.exponent, (int, float)) and not isinstance(l.exponent, bool) and \
            (isinstance(o.exponent, int) == isinstance(l.exponent, int))
        if not same_kind or o.exponent != l.exponent:
            return f"exponent: {o.exponent!r} -> {l.exponent!r}"
        return gate_diff(G, o.wrapped_gate, l.wrapped_gate, rng, depth + 1)
    if isinstance(o, G.MatrixFactoryGate):
        if o.name != l.name:
            return f"gate-name: {o.name} -> {l.name}"
        if o.num_qubits != l.num_qubits:
            return f"gate-arity: {o.name}: {o.num_qubits} -> {l.num_qubits}"
        oc = isinstance(o.matrix_factory, G.CustomGateMatrixFactory)
        lc = isinstance(l.matrix_factory, G.CustomGateMatrixFactory)
        if oc != lc:
            return f"gate-type: custom={oc} -> custom={lc} for {o.name}"
        if oc:
            od, ld = o.matrix_factory.gate_definition, l.matrix_factory.gate_definition
            if od.gate_name != ld.gate_name:
                return f"custom-def: name {od.gate_name} -> {ld.gate_name}"
            if tuple(od.params_ordering) != tuple(ld.params_ordering) or not all(isinstance(s, sympy.Symbol) for s in ld.params_ordering):
                return f"custom-def: params_ordering {od.params_ordering} -> {ld.params_ordering}"
            if od.matrix.shape != ld.matrix.shape:
                return f"custom-def: matrix shape {od.matrix.shape} -> {ld.matrix.shape}"
            for i, (a, b) in enumerate(zip(od.matrix, ld.matrix)):
                if not _exprs_equal(a, b):
                    return f"custom-def: matrix element {i}: {a} -> {b}"
        else:
            if o.matrix_factory is not l.matrix_factory or o.is_hermitian != l.is_hermitian:
                return f"gate-type: built-in {o.name} deserialised with a different matrix factory"
        if len(o.params) != len(l.params):
            return f"param-count: {o.name}: {len(o.params)} -> {len(l.params)}"
        for p, q in zip(o.params, l.params):
            d = param_diff(p, q, rng)
            if d is not None:
                return d
        return None
    return f"gate-type: unknown gate class {type(o).__name__}"


def float_params(c):
    out = []
    for op in c.operations:
        for p in op.params:
            if isinstance(p, float):
                out.append(p)
    return out


def circuit_diff(mods, orig, loaded, rng, semantic=True, ctx=None):
    C, G = mods
    if not isinstance(loaded, C.Circuit):
        return f"type: {type(loaded).__name__}"
    if type(loaded.n_qubits) is not int or loaded.n_qubits != orig.n_qubits:
        return f"width: {orig.n_qubits!r} -> {loaded.n_qubits!r}"
    oo, lo = list(orig.operations), list(loaded.operations)
    if len(oo) != len(lo):
        return f"op-count: {len(oo)} -> {len(lo)}"
    ulp = None
    for i, (a, b) in enumerate(zip(oo, lo)):
        if not isinstance(b, G.GateOperation):
            return f"op-type: op {i}: {type(b).__name__}"
        if tuple(a.qubit_indices) != tuple(b.qubit_indices) or not all(type(q) is int for q in b.qubit_indices):
            return f"qubits: op {i}: {a.qubit_indices} -> {b.qubit_indices}"
        d = gate_diff(G, a.gate, b.gate, rng)
        if d is not None:
            if d.startswith("param-float-ulp"):
                ulp = ulp or f"{d} (op {i})"   # keep looking for anything coarser
                continue
            return f"{d} (op {i}: {a})"
    if set(orig.free_symbols) != set(loaded.free_symbols):
        return f"free-symbols: {sorted(map(str, orig.free_symbols))} -> {sorted(map(str, loaded.free_symbols))}"
    if all(abs(p) <= 1e4 for p in float_params(orig)):
        if not (loaded == orig) or not (orig == loaded):
            return "lib-eq: deserialised circuit does not compare equal to the original"
    if semantic and orig.n_qubits <= 3 and oo:
        d = unitary_diff(orig, loaded, rng, ctx)
        if d is not None:
            return d
    return ulp  # the one-ulp float loss is reported only when nothing coarser is wrong


def _cheap_to_evaluate(G, gate):
    g = gate
    while hasattr(g, "wrapped_gate"):
        if isinstance(g, G.Power) and (not isinstance(g.exponent, int) or abs(g.exponent) > 3):
            return False
        if isinstance(g, G.Exponential) and not (type(g.wrapped_gate) is G.MatrixFactoryGate and g.wrapped_gate.name in CHEAP_EXP):
            return False  # sympy's Matrix.exp() takes minutes on anything with irrational or float entries (T, RX(0.3), ...)
        g = g.wrapped_gate
    return True


def unitary_diff(orig, loaded, rng, ctx):
    from orquestra.quantum.circuits import _gates as G

    if not all(_cheap_to_evaluate(G, op.gate) for op in orig.operations):
        if ctx:
            ctx.probe("semantic-skipped-expensive")
        return None
    syms = sorted(set(orig.free_symbols), key=str)
    n_assign = 2 if syms else 1
    for _ in range(n_assign):
        amap = {s: rng.choice([0.0, 0.5, -1.25, 2.0, 0.3, math.pi / 3, rng.uniform(-3, 3)]) for s in syms}
        try:
            with time_limit(10):
                ob = orig.bind(amap) if syms else orig
                uo = np.asarray(ob.to_unitary(), dtype=complex)
        except WallLimit:
            if ctx:
                ctx.probe("semantic-skipped-wall-limit")
            return None
        except Exception:  # noqa: BLE001 - the original itself cannot be evaluated: not a serde matter
            if ctx:
                ctx.probe("semantic-skipped-original-unevaluable")
            return None
        try:
            with time_limit(30):
                lb = loaded.bind(amap) if syms else loaded
                ul = np.asarray(lb.to_unitary(), dtype=complex)
        except WallLimit:
            if ctx:
                ctx.probe("semantic-skipped-wall-limit")
            return None
        except Exception as e:  # noqa: BLE001
            return f"unitary: loaded circuit cannot be evaluated although the original can: {type(e).__name__}: {e}"
        if uo.shape != ul.shape or not np.allclose(uo, ul, atol=1e-9, rtol=0):
            return f"unitary: matrices differ under {amap} (max abs diff {np.max(np.abs(uo - ul)) if uo.shape == ul.shape else 'shape'})"
        if ctx:
            ctx.probe("semantic-compared")
    return None


def mixed_indexed(c):
    """Some gate mixes a plain symbol n with an indexed symbol n[k]."""
    for op in c.operations:
        names = {str(s) for s in op.gate.free_symbols}
        bases = {n.split("[")[0] for n in names if n.endswith("]") and "[" in n}
        if bases & {n for n in names if "[" not in n}:
            return True
    return False


def feature_of(value):
    objs = value["obj"] if isinstance(value["obj"], list) else [value["obj"]]
    feats = []
    if any(mixed_indexed(c) for c in objs):
        feats.append("plain-and-indexed-symbol-share-base-name")
    return "+".join(feats)


# ---------------------------------------------------------------- world
def _scramble(x, depth=0):
    """In-place edits of a (nested) dictionary form, the way a client post-processing it would make them."""
    if isinstance(x, dict):
        for k in list(x):
            v = x[k]
            if isinstance(v, (dict, list)):
                _scramble(v, depth + 1)
            elif isinstance(v, str):
                x[k] = v + "_edited"
            elif isinstance(v, int) and not isinstance(v, bool):
                x[k] = v + 1
        x["client_note"] = depth
    elif isinstance(x, list):
        for i, v in enumerate(x):
            if isinstance(v, (dict, list)):
                _scramble(v, depth + 1)
            elif isinstance(v, int) and not isinstance(v, bool):
                x[i] = v + 1
            elif isinstance(v, str):
                x[i] = v + "_edited"
        x.reverse()


class LazyValue(dict):
    """A store value whose library object can be dropped and rebuilt from its spec: in "ephemeral" runs the client
    keeps only WHAT it saved, not the circuit objects (nor their custom gate definitions) themselves."""

    def __getitem__(self, k):
        v = dict.__getitem__(self, k)
        if k == "obj" and v is None:
            return dict.__getitem__(self, "_rebuild")()
        return v

    def drop(self):
        dict.__setitem__(self, "obj", None)


class World:
    PID = PID
    TIERS = {
        "quick": {"runs": 900, "budget_s": 50, "determinism_seeds": 8, "chunk": 10},
        "thorough": {"runs": 40000, "budget_s": 900, "determinism_seeds": 100, "chunk": 40},
    }
    RULE = ("one case = one seeded session of save / load / dict-round-trip steps over circuits and circuit lists on a "
            "shared simulated disk (1-6 paths, every handle kind, faults and crashes in a separate population); "
            "non-trivial = at least one acknowledged save was read back and compared, or a failed save was followed "
            "by a load; distinct = distinct (op, outcome, fault, structural feature) sequences (sha1)")
    COMPONENTS = {
        "real": ["circuits._serde (to_dict, circuit_from_dict, circuitset_from_dict, save_/load_circuit, save_/load_circuitset)",
                 "utils.ensure_open", "Circuit / gate classes / CustomGateDefinition / gate equality", "json, sympy.sympify"],
        "stub": ["disk: SimFS injected as module-global open (open/write/close errors, torn writes, crash, short reads)"],
        "model": ["path -> ACK(kind, value) | UNKNOWN{old, new}", "structural walk comparator + unitary under random symbol assignments"],
    }
    ASSUMPTIONS = [
        "gate parameters are Python ints/floats (|p| < 1e6, finite) or sympy expressions; numpy scalars are not generated (sympy 1.9 rejects them under numpy 2)",
        "library equality is demanded only when every float parameter has |p| <= 1e4 (its tolerance is absolute 1e-8)",
        "a symbol named like a sympy constant (pi, E, I) is never mixed with that constant in one expression (the text format cannot tell them apart)",
        "power exponents are Python ints or floats (what JSON can carry)",
        "semantic comparison is done for <= 3 qubits and skipped (counted) for fractional powers / multi-qubit exponentials, which sympy evaluates too slowly",
        "no power-loss model: the library never fsyncs",
    ]
    PROBES_EXPECTED = [
        "overwrite", "overwrite-shorter", "overwrite-other-kind", "torn-file-load", "semantic-compared", "dict-roundtrip",
        "set-roundtrip", "custom-gate", "wrapper-depth>=3", "indexed-symbol", "sympy-named-symbol", "empty-circuit",
        "idle-qubits", "custom-gate-alt-definition", "numeric-literal-named-symbol", "external-write", "via-handle", "via-bytes", "via-pathlike", "float-param", "exp-wrapper", "pow-wrapper",
        "positioned-handle-save", "dict-edited-then-serialised-again", "complex-param",
    ]

    # ------------------------------------------------------------ generation
    def _gen_circuit(self, r, cfg):
        n = r.choice(cfg["widths"])
        k = r.random()
        if k < 0.06:
            return {"ops": [], **({"n": n} if r.random() < 0.6 else {})}
        n_ops = r.randint(1, cfg["max_ops"])
        c = gen.rand_circuit(
            r, n, n_ops, explicit_n=0.4, max_arity=min(n, 4),
            symbolic=cfg["symbolic"], rich=True, symbols=cfg["symbols"], custom=cfg["custom"],
            wrappers=cfg["wrappers"], depth=4, direct=0.3, allow_exp=True, pow_exponents=POW_EXPONENTS, multi_pow=True,
            exclude=cfg.get("exclude", ()),
        )
        self._strip_pi_constants(c)
        if r.random() < 0.12:
            # Python complex numbers as parameters (a Python number like any other; mostly custom-gate arguments), with
            # components that need all 17 significant digits
            plain = [o["gate"] for o in c["ops"] if "gate" in o and "of" not in o["gate"] and o["gate"].get("p")]
            if plain:
                g = r.choice(plain)
                comp = lambda: r.choice([r.uniform(-3, 3), r.uniform(-3, 3), 0.1 + 0.2, 2 / 3, -0.0, 0.0, 1e-20, 1.0, -2.5])  # noqa: E731
                g["p"][r.randrange(len(g["p"]))] = {"c": [comp(), comp()]}
        if r.random() < 0.08:
            # custom gates whose definitions hold numeric entries of magnitude 1e-9 .. 1e-10
            nm = r.choice(["MyTiny", "MyTinyMixed"])
            g = {"custom": nm, "p": [] if nm == "MyTiny" else [r.choice([0.5, {"sym": r.choice(cfg["symbols"])}])]}
            if r.random() < 0.3:
                g = {"w": "ctrl", "n": 1, "of": g}
            k_ = gen.gate_arity(g)
            if k_ <= n:
                c["ops"].append({"gate": g, "q": gen.rand_qubits(r, k_, n)})
        if r.random() < 0.3:
            c["cv"] = 1   # same custom gate names, other definitions (definitions are per circuit)
        if r.random() < 0.15:
            c["cn"] = 1   # the custom gates carry names that differ from built-in names only in letter case
        if r.random() < 0.2:
            c["n"] = max(c.get("n", 0), n + r.randint(1, 2))  # idle qubits on top
        return c

    @staticmethod
    def _strip_pi_constants(c):
        """The text format cannot tell the symbol ``pi`` from the constant: never put both into one gate."""
        def fix(g):
            if "of" in g:
                fix(g["of"])
                return
            ps = g.get("p", [])
            has_pi_symbol = any(isinstance(p, dict) and "pi" in _names(p.get("sym") or p.get("e") or "") for p in ps)
            if has_pi_symbol:
                for i, p in enumerate(ps):
                    if isinstance(p, dict) and "pi" in p:
                        ps[i] = 0.75
        for o in c["ops"]:
            fix(o["gate"])

    def _gen_value(self, r, cfg):
        if r.random() < cfg["p_set"]:
            k = r.choice([0, 1, 2, 2, 3, 4])
            return "circuitset", [self._gen_circuit(r, cfg) for _ in range(k)]
        return "circuit", self._gen_circuit(r, cfg)

    def _fault(self, r, cfg, kinds):
        p = {"none": 0.0, "low": 0.15, "medium": 0.4}[cfg["faults"]]
        if r.random() < p:
            return {"kind": r.choice(kinds), "at": r.randrange(0, 14), "frac": r.random()}
        return None

    def gen_plan(self, seed, tier):
        r = random.Random(seed)
        faulty = r.random() < 0.5
        widths = r.choice([[1, 2], [2, 3], [1, 2, 3], [3], [2, 3, 4]])
        cfg = {
            "widths": widths,
            "max_ops": r.choice([2, 4, 8]),
            "symbols": r.choice(SYMBOL_POOLS),
            "symbolic": r.choice([0.0, 0.3, 0.7]),
            "custom": r.choice([0.0, 0.15, 0.4]),
            "wrappers": r.choice([0.2, 0.5, 0.75]),
            "p_set": r.choice([0.0, 0.3, 0.6]),
            "fs_buffer": r.choice(BUFFER_SIZES),
            "faults": r.choice(["low", "medium"]) if faulty else "none",
            "paths": r.randint(1, 6),
            "clients": r.choice([1, 2, 3]),
            "ephemeral_defs": r.random() < 0.35,
        }
        n_steps = r.randint(4, 18 if tier == "quick" else 30)
        steps = []
        recent = []
        while len(steps) < n_steps:
            k = r.random()
            path = f"/d/c{r.randrange(cfg['paths'])}.json"
            if k < 0.5:
                if recent and r.random() < 0.25:
                    kind, val = r.choice(recent)
                else:
                    kind, val = self._gen_value(r, cfg)
                    recent = (recent + [(kind, val)])[-4:]
                s = {"op": "save", "args": {"kind": kind, "value": val, "path": path, "via": r.choice(ALL_VIAS)}}
                f = self._fault(r, cfg, SAVE_FAULTS)
                if f:
                    s["fault"] = f
            elif k < 0.8:
                s = {"op": "load", "args": {"kind": r.choice(["circuit", "circuitset"]), "path": path, "via": r.choice(ALL_VIAS)}}
                f = self._fault(r, cfg, LOAD_FAULTS)
                if f:
                    s["fault"] = f
            elif k < 0.84:
                kind, val = self._gen_value(r, cfg)
                s = {"op": "save_after_header", "args": {"kind": kind, "value": val, "path": f"/d/own{r.randrange(2)}.txt",
                                                         "header": r.choice(["# run 17\n", "HDR\n", "{\"meta\": 1}\n", "x"])}}
                f = self._fault(r, cfg, [x for x in SAVE_FAULTS if x not in ("eacces", "enoent", "emfile")])
                if f:
                    s["fault"] = f
            elif k < 0.9:
                kind, val = self._gen_value(r, cfg)
                s = {"op": "dict_roundtrip", "args": {"kind": kind, "value": val, "text": r.random() < 0.8}}
            else:
                if recent and r.random() < 0.3:
                    kind, val = r.choice(recent)
                else:
                    kind, val = self._gen_value(r, cfg)
                s = {"op": "write_text", "args": {"kind": kind, "value": val, "path": path, "indent": r.choice([None, 0, 2, 4]),
                                                  "sort_keys": r.random() < 0.5}}
            steps.append(s)
        for s in steps:
            s["client"] = r.randrange(cfg["clients"])
            s["rs"] = r.getrandbits(32)
        return {"format": 1, "property": PID, "world": "store", "seed": seed, "config": cfg, "steps": steps}

    def sample(self, plan):
        def brief(s):
            a = dict(s.get("args", {}))
            if "value" in a:
                v = a["value"]
                a["value"] = f"<{a.get('kind')} spec, {len(v) if isinstance(v, list) else len(v['ops'])} items>"
            return {"op": s["op"], "args": a, **({"fault": s["fault"]} if "fault" in s else {})}
        return {"seed": plan["seed"], "config": plan["config"], "steps": [brief(s) for s in plan["steps"][:10]],
                "n_steps": len(plan["steps"])}

    # ------------------------------------------------------------ execution
    def init(self, ctx, plan):
        from orquestra.quantum import circuits as C
        from orquestra.quantum.circuits import _gates as G
        from orquestra.quantum.circuits import _serde as S

        st = {"C": C, "G": G, "S": S, "acked_sizes": {}, "ephemeral": bool(plan["config"].get("ephemeral_defs"))}
        gen.EPHEMERAL_DEFS[0] = st["ephemeral"]
        if st["ephemeral"]:
            ctx.probe("ephemeral-definitions")
        store = Store(ctx, plan["config"].get("fs_buffer", 4096))
        mods = (C, G)

        def same_circuit(ctx_, orig, loaded):
            return circuit_diff(mods, orig["obj"], loaded, random.Random(orig["rs"]), True, ctx_)

        def same_set(ctx_, orig, loaded):
            if not isinstance(loaded, list):
                return f"type: {type(loaded).__name__}"
            if len(loaded) != len(orig["obj"]):
                return f"set-length: {len(orig['obj'])} -> {len(loaded)}"
            rng = random.Random(orig["rs"])
            for i, (a, b) in enumerate(zip(orig["obj"], loaded)):
                d = circuit_diff(mods, a, b, rng, i < 2, ctx_)
                if d is not None:
                    tag, _, rest = d.partition(":")
                    return f"{tag}: member {i}:{rest}"
            return None

        store.register(Kind("circuit", lambda v, t: S.save_circuit(v["obj"], t), S.load_circuit, same_circuit,
                            ALL_VIAS, ALL_VIAS, feature=feature_of))
        store.register(Kind("circuitset", lambda v, t: S.save_circuitset(v["obj"], t), S.load_circuitset, same_set,
                            ALL_VIAS, ALL_VIAS, feature=feature_of))
        st["store"] = store
        return st

    def cleanup(self, st):
        gen.EPHEMERAL_DEFS[0] = False
        st["store"].cleanup()

    def _build(self, ctx, kind, spec):
        if kind == "circuit":
            obj = gen.build_circuit(spec)
            self._probe_features(ctx, [spec], [obj])
            return obj
        objs = [gen.build_circuit(c) for c in spec]
        self._probe_features(ctx, spec, objs)
        return objs

    def _probe_features(self, ctx, specs, objs):
        for spec, c in zip(specs, objs):
            if not spec["ops"]:
                ctx.probe("empty-circuit")
            used = {q for o in spec["ops"] for q in o["q"]}
            if spec["ops"] and len(used) < c.n_qubits:
                ctx.probe("idle-qubits")
            for o in spec["ops"]:
                g, d = o["gate"], 0
                while "of" in g:
                    d += 1
                    if g["w"] == "exp":
                        ctx.probe("exp-wrapper")
                    if g["w"] == "pow":
                        ctx.probe("pow-wrapper")
                    g = g["of"]
                if d >= 3:
                    ctx.probe("wrapper-depth>=3")
                if "custom" in g:
                    ctx.probe("custom-gate")
                    if spec.get("cv"):
                        ctx.probe("custom-gate-alt-definition")
                    if spec.get("cn"):
                        ctx.probe("custom-gate-case-variant-name")
                for p in g.get("p", []):
                    if isinstance(p, float):
                        ctx.probe("float-param")
                    if isinstance(p, dict) and "c" in p:
                        ctx.probe("complex-param")
                    if isinstance(p, dict) and ("sym" in p or "e" in p):
                        names = _names(p.get("sym") or p.get("e"))
                        if any("[" in n for n in names):
                            ctx.probe("indexed-symbol")
                        if any(n in ("beta", "gamma", "S", "I", "E", "Q", "pi", "N", "O", "zeta", "oo", "zoo") for n in names):
                            ctx.probe("sympy-named-symbol")
                        if any(n.lower() in ("j", "nan", "inf", "infinity") for n in names):
                            ctx.probe("numeric-literal-named-symbol")

    def step(self, ctx, st, step):
        a = step["args"]
        op = step["op"]
        if op == "load":
            out = st["store"].load(ctx, a["kind"], a["path"], a["via"], step.get("fault"))
            if out in ("ok", "error"):
                ctx.nontrivial = True
            return
        # build the value (harness code; an exception here is a generator bug unless the library rejects a valid gate)
        ok, obj = call(self._build, ctx, a["kind"], a["value"])
        if not ok:
            ctx.probe("value-unbuildable")
            ctx.log(op, "unbuildable", err=type(obj).__name__)
            return
        kind_, spec_ = a["kind"], a["value"]
        value = LazyValue(obj=obj, rs=step["rs"],
                          _rebuild=lambda: gen.build_circuit(spec_) if kind_ == "circuit" else [gen.build_circuit(c) for c in spec_])
        del obj
        try:
            return self._step_with_value(ctx, st, step, a, op, value)
        finally:
            if st.get("ephemeral"):
                value.drop()

    def _step_with_value(self, ctx, st, step, a, op, value):
        obj = value["obj"]
        if op == "save":
            ctx.probe("via-" + a["via"])
            store = st["store"]
            before = len(store.fs.files.get(a["path"], b""))
            out = store.save(ctx, a["kind"], value, a["path"], a["via"], step.get("fault"))
            if out == "ack":
                ctx.nontrivial = True
                after = len(store.fs.files.get(a["path"], b""))
                if before and after < before:
                    ctx.probe("overwrite-shorter")
            return
        if op == "save_after_header":
            out = st["store"].save_after_header(ctx, a["kind"], value, a["path"], a["header"], step.get("fault"))
            if out == "ok":
                ctx.nontrivial = True
            return
        if op == "write_text":
            S = st["S"]
            ok, d = call(S.to_dict, obj)
            if not ok:
                ctx.fail("unexpected-reject", f"to_dict:{type(d).__name__}", f"to_dict raised {type(d).__name__}: {d}")
            text = json.dumps(d, indent=a["indent"], sort_keys=a["sort_keys"])
            st["store"].external_write(ctx, a["kind"], value, a["path"], text)
            ctx.nontrivial = True
            return
        if op == "dict_roundtrip":
            S = st["S"]
            ctx.probe("dict-roundtrip")
            if a["kind"] == "circuitset":
                ctx.probe("set-roundtrip")
            feat = feature_of(value)
            tag = f":{feat}" if feat else ""
            ok, d = call(S.to_dict, obj)
            if not ok:
                ctx.fail("unexpected-reject", f"to_dict:{type(d).__name__}{tag}", f"to_dict raised {type(d).__name__}: {d}")
            if a.get("text", True):
                ok, text = call(json.dumps, d)
                if not ok:
                    ctx.fail("unexpected-reject", f"json:{type(text).__name__}{tag}", f"dictionary form is not JSON serialisable: {text}")
                d = json.loads(text)
            ok, loaded = call(S.circuit_from_dict if a["kind"] == "circuit" else S.circuitset_from_dict, d)
            ctx.called("dict_roundtrip:" + a["kind"])
            if not ok:
                ctx.fail("unexpected-reject", f"from_dict:{type(loaded).__name__}{tag}",
                         f"deserialising the dictionary form of a valid {a['kind']} raised {type(loaded).__name__}: {loaded}")
            kind = st["store"].kinds[a["kind"]]
            with judge(ctx, "compare-exception"):
                diff = kind.same(ctx, value, loaded)
            if diff is not None:
                ctx.fail("wrong-data", f"{a['kind']}:{diff.split(':')[0]}", f"dict round trip changed the {a['kind']}: {diff}")
            # the dictionary to_dict() returned belongs to the client: it post-processes it in place (renames, shifts
            # indices, drops entries) - and then serialises the same circuit object again
            ok0, d_first = call(S.to_dict, obj)
            if ok0:
                _scramble(d_first)
                ok2, d_again = call(S.to_dict, obj)
                ctx.check(ok2, "unexpected-reject", f"to_dict:second:{type(d_again).__name__}", lambda: f"second to_dict raised {d_again!r}")
                ok3, loaded2 = call(lambda: (S.circuit_from_dict if a["kind"] == "circuit" else S.circuitset_from_dict)(json.loads(json.dumps(d_again))))
                if not ok3:
                    ctx.fail("unexpected-reject", f"from_dict:after-client-edit:{type(loaded2).__name__}{tag}",
                             f"after the client edited the dictionary an earlier to_dict() call returned, a fresh dictionary form of the same "
                             f"{a['kind']} cannot be deserialised: {type(loaded2).__name__}: {loaded2}")
                with judge(ctx, "compare-exception"):
                    diff2 = kind.same(ctx, value, loaded2)
                if diff2 is not None:
                    ctx.fail("wrong-data", f"{a['kind']}:after-client-edit:{diff2.split(':')[0]}",
                             f"after the client edited the dictionary an earlier to_dict() call returned, the same {a['kind']} serialises differently: {diff2}")
                ctx.probe("dict-edited-then-serialised-again")
            ctx.nontrivial = True
            ctx.log("dict_roundtrip", "ok", kind=a["kind"])
            return
        raise ValueError(f"unknown op {op}")

    def finish(self, ctx, st):
        st["store"].final_durability(ctx)

    # ------------------------------------------------------------ shrinking
    def shrink_step(self, s):
        a = s.get("args", {})
        if "value" not in a:
            if a.get("via") not in (None, "str"):
                yield {**s, "args": {**a, "via": "str"}}
            return
        v = a["value"]
        if a["kind"] == "circuitset":
            for i in range(len(v)):
                yield {**s, "args": {**a, "value": v[:i] + v[i + 1:]}}
            if len(v) == 1:
                yield {**s, "args": {**a, "kind": "circuit", "value": v[0]}}
            for i, c in enumerate(v):
                for c2 in _shrink_circuit(c):
                    yield {**s, "args": {**a, "value": v[:i] + [c2] + v[i + 1:]}}
        else:
            for c2 in _shrink_circuit(v):
                yield {**s, "args": {**a, "value": c2}}
        if a.get("via") not in (None, "str"):
            yield {**s, "args": {**a, "via": "str"}}


def _names(text):
    import re

    return re.findall(r"[A-Za-z_][A-Za-z_0-9]*(?:\[[0-9]+\])?", text or "")


def _shrink_gate(g):
    if "of" in g:
        yield g["of"]
        for inner in _shrink_gate(g["of"]):
            yield {**g, "of": inner}
        if g.get("direct"):
            yield {k: v for k, v in g.items() if k != "direct"}
        if g["w"] == "ctrl" and g["n"] > 1:
            yield {**g, "n": 1}
        return
    ps = g.get("p", [])
    for i, p in enumerate(ps):
        if p != 0.5:
            yield {**g, "p": ps[:i] + [0.5] + ps[i + 1:]}


def _shrink_circuit(c):
    ops = c["ops"]
    for i in range(len(ops)):
        rest = ops[:i] + ops[i + 1:]
        n = c.get("n")
        need = max([max(o["q"]) for o in rest] + [-1]) + 1
        base = {k: v for k, v in c.items() if k not in ("ops", "n")}
        yield {**base, "ops": rest, "n": max(n or 0, need) or None} if (n or not rest) else {**base, "ops": rest}
    if c.get("cv"):
        yield {k: v for k, v in c.items() if k != "cv"}
    if c.get("cn"):
        yield {k: v for k, v in c.items() if k != "cn"}
    for i, o in enumerate(ops):
        for g2 in _shrink_gate(o["gate"]):
            k_old, k_new = gen.gate_arity(o["gate"]), gen.gate_arity(g2)
            q = o["q"][len(o["q"]) - k_new:] if k_new <= k_old else None
            if q is None:
                continue
            yield {**c, "ops": ops[:i] + [{"gate": g2, "q": q}] + ops[i + 1:]}


WORLD = World()
