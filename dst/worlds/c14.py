"""C14 — runners validate requests, deliver enough shots and count their work correctly.

Call histories by several clients on shared runners (bundled simulator, base-class
simulators with run-specific native sets, a shot back-end with over-delivery, each
optionally behind the measurement tracker writing to SimFS), with a counter model,
peer invocation ledger, attributable results and a parsed-record oracle.
"""
import json
import random
import re
from collections import Counter

import numpy as np

from ..simkit import gen, refmodel
from ..simkit.backends import BackendFault, classes
from ..simkit.core import Viol, call, judge, clear_library_caches
from ..simkit.simfs import Seams, SimFS
from ..simkit.simrng import POLICIES, SimRNG
from ..simkit.simalloc import SimAlloc
from ..simkit.store import BUFFER_SIZES

PID = "C14"
TRACK_FAULTS = ["eacces", "enospc", "eio", "eio_close", "emfile", "eintr"]


class Spy:
    """Records what the wrapped runner's public methods returned (instance-attribute shadowing)."""

    def __init__(self, target):
        self.returned = []
        for name in ("run_and_measure", "run_batch_and_measure", "get_measurement_outcome_distribution"):
            orig = getattr(target, name)

            def wrapper(*a, _orig=orig, _name=name, **kw):
                res = _orig(*a, **kw)
                self.returned.append((_name, res))
                return res

            setattr(target, name, wrapper)


def sympy_srepr_defs(op):
    """Definition matrix of the (innermost) custom gate of an operation, as text; None for built-in gates."""
    import sympy

    g = getattr(op, "gate", None)
    while g is not None and hasattr(g, "wrapped_gate"):
        g = g.wrapped_gate
    d = getattr(getattr(g, "matrix_factory", None), "gate_definition", None)
    return None if d is None else (d.gate_name, [sympy.srepr(e) for e in d.matrix], [str(p_) for p_ in d.params_ordering])


class World:
    PID = PID
    WATCHDOG_S = 120  # a run of this world takes well under a second; beyond this it is a hang
    TIERS = {
        "quick": {"runs": 5000, "budget_s": 50, "determinism_seeds": 8, "chunk": 20},
        "thorough": {"runs": 80000, "budget_s": 900, "determinism_seeds": 150, "chunk": 100},
    }
    RULE = ("one case = one seeded call history (single / batch / distribution / wavefunction / exact-expectation calls, valid "
            "and invalid, from 1-3 clients) on a shared set of runners built on the base classes, some behind the measurement "
            "tracker; non-trivial = at least one rejected call followed by a later successful call on the same runner and at "
            "least 3 successful calls; distinct = distinct (op, outcome, fault) sequences")
    COMPONENTS = {
        "real": ["BaseCircuitRunner (validation, counters, batch fan-out, distribution)", "BaseWavefunctionSimulator (run, get_wavefunction, "
                 "split/threading/counters, exact expectation, distribution)", "SymbolicSimulator", "MeasurementTrackingBackend",
                 "sample_from_wavefunction, Measurements, circuits.to_dict"],
        "stub": ["ShotBackend._run_and_measure (samples the reference distribution, over-delivers, fails on schedule)",
                 "SplitSim native applier + predicate", "SimFS for the tracker file", "SimRNG (real numpy generators seeded per step, or adversarial legal draws)"],
        "model": ["counter model per runner", "peer invocation ledger", "attributable basis-state results", "tracker record comparator"],
    }
    ASSUMPTIONS = [
        "under an injected peer fault the failing simulator segment may or may not be counted (model in {done, done+1})",
        "for the tracker only 'never decreases' and 'unchanged by a rejected call' are demanded of its own counters; under a disk fault the failed call's file content is not judged",
        "tracker records are compared with circuits.to_dict of the submitted circuit (C05 owns the serialiser's correctness)",
        "argument validation is only demanded for Python ints and lists / tuples of Python ints (the annotated Sequence[int]); numpy scalars and arrays are not generated",
    ]
    PROBES_EXPECTED = ["rejected-run", "rejected-batch-length", "rejected-batch-entry", "rejected-dist", "batch-ok", "run-ok",
                       "dist-exact", "dist-sampled", "wf-ok", "peer-fault-mid-batch", "over-delivery", "tracker-record-ok",
                       "tracker-bitstrings", "tracker-disk-fault", "tracker-after-disk-fault", "multi-segment", "empty-circuit",
                       "idle-qubits", "symbolic-circuit-refused", "call-after-reject", "numpy-bit-backend", "tuple-arguments", "ephemeral-circuit-objects", "alloc-fault", "peer-fault-after-completed-circuits"]

    # ------------------------------------------------------------ generation
    def gen_plan(self, seed, tier):
        r = random.Random(seed)
        n = r.choice([1, 2, 2, 3, 3, 4])
        runners = []
        kinds = r.sample(["symbolic", "split", "shot", "split", "shot"], r.randint(2, 3))
        for k in kinds:
            if k == "symbolic":
                spec = {"kind": "symbolic", "seed": r.choice([None, None, 7, 12345])}
            elif k == "split":
                fam = r.choice(["all", "none", "gateop", "arity", "names", "parity"])
                arg = {"arity": r.choice([1, 2]), "names": r.sample(sorted(gen.BUILTIN), 8), "parity": r.choice([0, 1])}.get(fam)
                spec = {"kind": "split", "family": fam, "arg": arg, "real_apply": r.random() < 0.5, "seed": r.choice([None, 3])}
            else:
                spec = {"kind": "shot", "extra": r.choice([0, 0, 1, 5]), "np_bits": r.random() < 0.3}
            runners.append(spec)
            if r.random() < 0.5:
                runners.append({"kind": "tracker", "inner": len(runners) - 1, "bitstrings": r.random() < 0.5,
                                "file": f"/d/raw{len(runners)}.json"})
        cfg = {"n": n, "runners": runners, "clients": r.randint(1, 3), "faults": r.choice(["none", "none", "low", "medium"]),
               "fs_buffer": r.choice(BUFFER_SIZES), "rng_mode": r.choice(["real", "real", "adversarial"]),
               "rng_policy": r.choice(POLICIES), "ephemeral_circuits": r.random() < 0.35}
        # circuit pool (specs)
        circs = []
        for _ in range(r.randint(3, 6)):
            k = r.random()
            if k < 0.45:
                nn = r.choice([n, n, max(1, n - 1)])
                circs.append({"kind": "basis", "c": gen.basis_circuit([r.randint(0, 1) for _ in range(nn)])})
            elif k < 0.75:
                circs.append({"kind": "rand", "c": gen.rand_circuit(r, n, r.randint(1, 8), wrappers=0.2, powexp=False, custom=r.choice([0.05, 0.05, 0.4]),
                                                                    exclude=["U3", "MyNonUnitary"], phase_ops=0.15, max_arity=3)})
                if r.random() < 0.3:
                    circs[-1]["c"]["cv"] = 1   # the same custom gate NAMES with other definitions (stored per circuit)
            elif k < 0.87:
                circs.append({"kind": "empty", "c": {"ops": [], "n": r.randint(1, n)}})
            elif k < 0.97:
                circs.append({"kind": "sym", "c": {"ops": [{"gate": {"g": "RX", "p": [{"sym": "theta"}]}, "q": [0]}], "n": n}})
            else:
                circs.append({"kind": "zero", "c": {"ops": []}})
        if r.random() < 0.2:
            # two circuits using ONE custom gate name with different definitions (definitions are stored per circuit), both
            # passing through the same runners / tracker in one process
            nm = r.choice(["MyRot", "MyFixed", "MyDoubleAngle"])
            g = {"custom": nm, "p": [r.choice([0.5, 1.25, 2.0])] if nm != "MyFixed" else []}
            base = {"ops": [{"gate": g, "q": [r.randrange(n)]}], "n": n}
            circs.append({"kind": "rand", "c": dict(base)})
            circs.append({"kind": "rand", "c": {**base, "cv": 1}})
        cfg["circuits"] = circs
        pf = {"none": 0.0, "low": 0.1, "medium": 0.3}[cfg["faults"]]
        steps = []
        for _ in range(r.randint(5, 30)):
            op = r.choices(["run", "batch", "dist", "wf", "exact"], [5, 6, 3, 2, 1])[0]
            a = {"runner": r.randrange(16)}
            if op == "run":
                a.update(c=r.randrange(16), n=r.choice([1, 2, 5, 17, 40]) if r.random() < 0.75 else r.choice([0, -1, -10]))
            elif op == "batch":
                k = r.choice([0, 1, 2, 3, 5])
                a["cs"] = [r.randrange(16) for _ in range(k)]
                mode = r.choices(["int", "list", "bad-int", "long", "short", "bad-entry"], [3, 4, 1, 1, 1, 2])[0]
                if mode == "int":
                    a["n"] = r.choice([1, 3, 20])
                elif mode == "bad-int":
                    a["n"] = r.choice([0, -1, -10])
                else:
                    ns = [r.choice([1, 2, 7, 30]) for _ in range(k)]
                    if mode == "long":
                        ns = ns + [3]
                    elif mode == "short":
                        ns = ns[:-1] if ns else [1]
                    elif mode == "bad-entry" and ns:
                        ns[r.choice([0, len(ns) // 2, len(ns) - 1])] = r.choice([0, -1, -10])
                    a["n"] = ns
                a["seq"] = r.choice(["list", "list", "list", "tuple", "tuple-circuits", "tuple-counts"])
            elif op == "dist":
                a.update(c=r.randrange(16), n=r.choice([None, None, 1, 10, 50, 0, -3]))
            elif op == "wf":
                a.update(c=r.randrange(16))
            else:
                a.update(c=r.randrange(16), op=gen.rand_pauli(r, n, r.randint(1, 3), ops="Z", constant=0.2, dup=0))
            s = {"op": op, "args": a, "client": r.randrange(cfg["clients"]), "rs": r.getrandbits(32)}
            if r.random() < pf:
                s["fault"] = r.choice([{"kind": "peer", "at": r.randrange(0, 4)}, {"kind": "alloc", "at": r.randrange(0, 30)},
                                       {"kind": r.choice(TRACK_FAULTS), "at": r.randrange(0, 6), "frac": r.random()}])
            steps.append(s)
        return {"format": 1, "property": PID, "world": "runners", "seed": seed, "config": cfg, "steps": steps}

    def sample(self, plan):
        cfg = dict(plan["config"])
        cfg["circuits"] = [c["kind"] for c in cfg["circuits"]]
        return {"seed": plan["seed"], "config": cfg, "n_steps": len(plan["steps"]),
                "steps": [{k: s[k] for k in ("op", "args", "fault") if k in s} for s in plan["steps"][:8]]}

    # ------------------------------------------------------------ execution
    def init(self, ctx, plan):
        from orquestra.quantum import utils as umod
        from orquestra.quantum import wavefunction as wfmod
        from orquestra.quantum.runners.symbolic_simulator import SymbolicSimulator
        from orquestra.quantum.runners.trackers import MeasurementTrackingBackend

        ShotBackend, SplitSim, _ = classes()
        cfg = plan["config"]
        clear_library_caches()
        clear_library_caches()
        fs = SimFS(cfg.get("fs_buffer", 4096))
        seams = Seams(fs).install()
        rng = SimRNG(cfg.get("rng_mode", "real"), cfg.get("rng_policy", "uniform"), ctx.probes).install()
        runners = []
        try:
            for spec in cfg["runners"]:
                if spec["kind"] == "symbolic":
                    obj = SymbolicSimulator(seed=spec["seed"])
                elif spec["kind"] == "split":
                    obj = SplitSim(spec["family"], spec["arg"], spec["real_apply"], seed=spec["seed"])
                elif spec["kind"] == "shot":
                    obj = ShotBackend(extra=spec["extra"])
                    obj.np_bits = bool(spec.get("np_bits"))
                    if obj.np_bits:
                        ctx.probe("numpy-bit-backend")
                else:
                    inner = runners[spec["inner"]]
                    spy = Spy(inner["obj"])
                    obj = MeasurementTrackingBackend(inner["obj"], spec["file"], spec["bitstrings"])
                    runners.append({"spec": spec, "obj": obj, "inner": inner, "spy": spy, "jobs": 0, "circs": 0,
                                    "rejected_pending": False, "disk_fault_pending": False})
                    continue
                runners.append({"spec": spec, "obj": obj, "jobs": 0, "circs": 0, "rejected_pending": False})
            circs = []
            for c in cfg["circuits"]:
                circ = gen.build_circuit(c["c"])
                n = circ.n_qubits
                ent = {"kind": c["kind"], "c": circ, "n": n, "spec": c["c"]}
                if c["kind"] in ("basis", "empty"):
                    bits = [0] * n
                    for o in c["c"]["ops"]:
                        bits[o["q"][0]] ^= 1
                    ent["bits"] = tuple(bits)
                if c["kind"] == "rand":
                    ok, state = call(refmodel.run_circuit, circ.operations, n)
                    ent["probs"] = (np.abs(state) ** 2) if ok else None
                circs.append(ent)
        except BaseException:
            seams.restore()
            rng.restore()
            raise
        if cfg.get("ephemeral_circuits"):
            ctx.probe("ephemeral-circuit-objects")
        return {"fs": fs, "seams": seams, "rng": rng, "runners": runners, "circs": circs, "ok_calls": 0, "after_reject": False,
                "ephemeral": bool(cfg.get("ephemeral_circuits")), "alloc": SimAlloc().install()}

    def cleanup(self, st):
        st["alloc"].restore()
        st["seams"].restore()
        st["rng"].restore()

    # -- helpers
    def _runner(self, st, ref):
        return st["runners"][ref % len(st["runners"])]

    def _circ(self, st, ref):
        ent = st["circs"][ref % len(st["circs"])]
        if st.get("ephemeral"):
            # the client builds its circuit for this one call and drops it afterwards: circuit OBJECTS are short-lived
            # (their addresses get reused), only their content persists
            return {**ent, "c": gen.build_circuit(ent["spec"])}
        return ent

    @staticmethod
    def _base(R):
        return R["inner"] if R["spec"]["kind"] == "tracker" else R

    def _segments(self, R, circ):
        """(jobs, native) that one get_wavefunction adds on simulator R."""
        sim = R["obj"]
        groups = []
        last = None
        for o in circ.operations:
            v = bool(sim.is_natively_supported(o))
            if last is None or v != last:
                groups.append(v)
                last = v
        return len(groups), sum(1 for g in groups if g)

    def _read_counters(self, R):
        return R["obj"].n_jobs_executed, R["obj"].n_circuits_executed

    def _expect_counters(self, ctx, R, lo, hi, what):
        """lo/hi: (jobs, circs) inclusive bounds of the model after the call."""
        j, c = self._read_counters(R)
        ctx.check(j >= R["jobs"] and c >= R["circs"], "counter", "decreased",
                  f"{what}: counters went from ({R['jobs']},{R['circs']}) to ({j},{c})")
        ctx.check(lo[0] <= j <= hi[0] and lo[1] <= c <= hi[1], "counter", re.sub(r"\[.*?\]", "", what).split(":")[0],
                  f"{what}: counters ({j},{c}) outside expected [{lo}..{hi}] (before: ({R['jobs']},{R['circs']}))")
        R["jobs"], R["circs"] = j, c

    def _expect_growth(self, ctx, B, ents, deltas, what, peers_before):
        """Counters of base runner B after a SUCCESSFUL call that asked for `ents` (model growth `deltas` each).
        "grow by exactly the number of circuits and jobs actually run": a simulator may answer a circuit it has
        evaluated before from memory, in which case that circuit was not run (and may or may not be counted - from the
        outside both are indistinguishable from a run).  So: the growth must be the sum of the model growth over a set
        S of the requested circuits that contains every circuit this runner has NOT successfully evaluated before; for a
        stub-observed back-end the native invocations the peer saw must be exactly those of S or those of all circuits."""
        full = (sum(d[0] for d in deltas), sum(d[1] for d in deltas))
        j, c = self._read_counters(B)
        grown = (j - B["jobs"], c - B["circs"])
        seen = B.setdefault("seen_ok", set())
        keys = [json.dumps(e.get("spec"), sort_keys=True, default=str) for e in ents]
        ok = grown == full
        if not ok and B["spec"]["kind"] != "shot" and len(ents) <= 6:
            elig = [i for i, k in enumerate(keys) if k in seen or k in keys[:i]]   # (also: the same circuit earlier in this batch)
            fixed = [i for i in range(len(ents)) if i not in elig]
            for mask in range(1 << len(elig)):
                S = fixed + [i for b, i in enumerate(elig) if mask >> b & 1]
                if grown == (sum(deltas[i][0] for i in S), sum(deltas[i][1] for i in S)):
                    ok = True
                    ctx.probe("answered-from-memory-not-counted")
                    break
        if not ok:
            return self._expect_counters(ctx, B, (B["jobs"] + full[0], B["circs"] + full[1]), (B["jobs"] + full[0], B["circs"] + full[1]), what)
        if B["spec"]["kind"] == "split":
            observed = len(B["obj"].native_calls) - peers_before
            if observed != full[1]:
                # fewer native invocations than the request has native runs: either exactly what was counted (circuits
                # answered from memory and not counted), or - counted as if run - at least the runs of every circuit this
                # runner had not evaluated before
                must = sum(d[1] for i, (k, d) in enumerate(zip(keys, deltas)) if k not in seen and k not in keys[:i])
                ctx.check(observed == grown[1] or (grown == full and must <= observed <= full[1]), "counter", "peer-invocations",
                          f"{what}: the peer saw {observed} native sub-circuits, the request has {full[1]} native runs "
                          f"({must} of them in circuits never evaluated before), counters grew by {grown}")
                ctx.probe("answered-without-peer")
        seen.update(keys)
        B["jobs"], B["circs"] = j, c

    def _peer_count(self, R):
        B = self._base(R)
        k = B["spec"]["kind"]
        if k == "shot":
            return len(B["obj"].calls)
        if k == "split":
            return len(B["obj"].native_calls)
        return B["obj"].n_jobs_executed  # bundled simulator: its job counter is the only execution trace

    def _arm(self, st, R, step):
        st.pop("fault_absorbed", None)
        f = step.get("fault")
        B = self._base(R)
        k = B["spec"]["kind"]
        if k == "shot":
            B["obj"].arm(step["rs"], f["at"] if f and f["kind"] == "peer" else None)
        elif k == "split":
            B["obj"].arm(f["at"] if f and f["kind"] == "peer" else None)
        disk = f if f and f["kind"] not in ("peer", "alloc") else None
        st["fs"].begin_call(disk if R["spec"]["kind"] == "tracker" else None)
        # a failing allocation inside the library (the bundled simulator lifting a gate, a Wavefunction being built)
        # is the real simulators' counterpart of a failing stub peer
        st["alloc"].begin_call(f if f and f["kind"] == "alloc" else None)
        st["rng"].begin_step(step["rs"])

    def _disarm(self, ctx, st, R):
        B = self._base(R)
        if B["spec"]["kind"] in ("shot", "split"):
            B["obj"].fail_at = None
        fired = st["fs"].end_call()
        for f in fired:
            ctx.fault(f[0])
        st["alloc_fired"] = bool(st["alloc"].end_call())
        if st["alloc_fired"]:
            ctx.fault("alloc-fault")
            ctx.probe("alloc-fault")
        return fired

    def _check_measurement(self, ctx, ent, meas, n_req, what, extra_ok):
        from orquestra.quantum.measurements import Measurements
        ctx.check(isinstance(meas, Measurements), "refine", "result-type", f"{what}: result is {type(meas).__name__}")
        bs = meas.bitstrings
        ctx.check(len(bs) >= n_req, "refine", "too-few-shots", f"{what}: {len(bs)} shots for a request of {n_req}")
        if len(bs) > n_req:
            ctx.probe("over-delivery")
            ctx.check(extra_ok, "refine", "unexpected-extra-shots", f"{what}: {len(bs)} shots for a request of {n_req} on an exact runner")
        n = ent["n"]
        for t in bs[:64]:
            if len(t) != n:
                ctx.fail("refine", "bitstring-length" + (":zero-qubit" if n == 0 else ""),
                         f"{what}: outcome {tuple(t)!r} has length {len(t)}, register width is {n}")
        if "bits" in ent:
            bad = [tuple(t) for t in bs if tuple(int(b) for b in t) != ent["bits"]]
            ctx.check(not bad, "order", "shots-of-another-circuit", lambda: f"{what}: expected only {ent['bits']}, got e.g. {bad[0]}")

    # -- the generic call wrapper
    def step(self, ctx, st, step):
        getattr(self, "_do_" + step["op"])(ctx, st, step, step["args"])
        if st["ok_calls"] >= 3 and st["after_reject"]:
            ctx.nontrivial = True

    def _after_ok(self, ctx, st, R):
        st["ok_calls"] += 1
        if R["rejected_pending"]:
            R["rejected_pending"] = False
            st["after_reject"] = True
            ctx.probe("call-after-reject")

    def _rejected(self, ctx, st, R, ok, res, what, probe, peers_before):
        ctx.check(not ok, "unexpected-accept", what, f"{what}: invalid request was accepted")
        ctx.check(isinstance(res, ValueError), "wrong-exception", what, f"{what}: rejected with {type(res).__name__} instead of ValueError: {res}")
        ctx.check(self._peer_count(R) == peers_before, "executed-before-reject", what,
                  f"{what}: the back-end was invoked although the request is invalid")
        self._expect_counters(ctx, R, (R["jobs"], R["circs"]), (R["jobs"], R["circs"]), f"rejected-{what}")
        if R["spec"]["kind"] == "tracker":
            B = R["inner"]
            self._expect_counters(ctx, B, (B["jobs"], B["circs"]), (B["jobs"], B["circs"]), f"rejected-{what}:inner")
        R["rejected_pending"] = True
        ctx.probe(probe)

    def _model_run_one(self, R, ent):
        """(jobs, circs) a single successful run adds on base runner R."""
        k = R["spec"]["kind"]
        if k == "shot":
            return 1, 1
        return self._segments(R, ent["c"])

    def _tracker_record_check(self, ctx, st, R, pairs, dist=None):
        absorbed = st.pop("fault_absorbed", None)
        if absorbed is None:
            return self._tracker_record_check_(ctx, st, R, pairs, dist)
        try:
            return self._tracker_record_check_(ctx, st, R, pairs, dist)
        except Viol as v:
            ctx.fail("swallowed-error", f"tracker:{absorbed[0]}",
                     f"{absorbed[1]}: call returned although an injected {absorbed[0]} fired while writing the record, and the file does "
                     f"not hold the record: {v.detail[:500]}")

    def _tracker_record_check_(self, ctx, st, R, pairs, dist=None):
        """pairs: [(circuit ent, measurement)] for this call, in order."""
        from orquestra.quantum.circuits import to_dict
        spec = R["spec"]
        raw = st["fs"].files.get(spec["file"])
        ctx.check(raw is not None, "record-mismatch", "no-file", "tracker wrote no file")
        with judge(ctx, "record-mismatch"):
            data = json.loads(raw.decode())
            recs = data["raw-data"]
            k = len(pairs)
            ctx.check(len(recs) >= k, "record-mismatch", "record-count", f"{len(recs)} records in file for a call with {k} circuits")
            if not R.get("disk_fault_pending"):
                ctx.check(len(recs) == k, "record-mismatch", "record-count", f"{len(recs)} records in file for a call with {k} circuits")
            else:
                ctx.probe("tracker-after-disk-fault")
                R["disk_fault_pending"] = False
            for (ent, meas), rec in zip(pairs, recs[len(recs) - k:]):
                want_circ = json.loads(json.dumps(to_dict(ent["c"])))
                ctx.check(rec.get("circuit") == want_circ, "record-mismatch", "circuit", f"recorded circuit {rec.get('circuit')} != {want_circ}")
                # ... and independently of how the serialiser arrives at its dictionaries: the record must READ BACK as
                # the circuit that ran (gate kinds, parameters, qubits, custom definitions)
                from orquestra.quantum.circuits import circuit_from_dict
                back = circuit_from_dict(rec.get("circuit"))
                ctx.check(back == ent["c"] and back.n_qubits == ent["c"].n_qubits
                          and [sympy_srepr_defs(o) for o in back.operations] == [sympy_srepr_defs(o) for o in ent["c"].operations],
                          "record-mismatch", "circuit-reads-back-differently",
                          f"the recorded circuit deserialises to {back!r}, the circuit that ran is {ent['c']!r}")
                ctx.check(rec.get("device") == type(R["inner"]["obj"]).__name__, "record-mismatch", "device", f"device {rec.get('device')!r}")
                ctx.check(rec.get("number_of_gates") == len(ent["c"].operations), "record-mismatch", "number_of_gates", f"{rec.get('number_of_gates')}")
                if dist is None:
                    counts = Counter("".join(str(int(b)) for b in t) for t in meas.bitstrings)
                    ctx.check(rec.get("data_type") == "measurement", "record-mismatch", "data_type", f"{rec.get('data_type')!r}")
                    ctx.check(rec.get("counts") == dict(counts), "record-mismatch", "counts", f"recorded counts {rec.get('counts')} != {dict(counts)}")
                    ctx.check(rec.get("number_of_shots") == len(meas.bitstrings), "record-mismatch", "number_of_shots",
                              f"recorded {rec.get('number_of_shots')} shots, returned {len(meas.bitstrings)}")
                    if spec["bitstrings"]:
                        ctx.probe("tracker-bitstrings")
                        ctx.check(rec.get("bitstrings") == [[int(b) for b in t] for t in meas.bitstrings], "record-mismatch", "bitstrings",
                                  "recorded bitstrings differ from the returned ones")
                    else:
                        ctx.check("bitstrings" not in rec, "record-mismatch", "bitstrings-unrequested", "bitstrings recorded although not requested")
                else:
                    ctx.check(rec.get("number_of_shots") == dist[0], "record-mismatch", "dist-shots", f"{rec.get('number_of_shots')} != {dist[0]}")
                    ctx.check(rec.get("distribution") == repr(dist[1]), "record-mismatch", "dist-repr", "recorded distribution differs")
        ctx.probe("tracker-record-ok")

    def _finish_call(self, ctx, st, R, step, ok, res, fired, what):
        """Common handling of peer / disk faults. Returns 'fault' if the call legitimately failed."""
        alloc = st.pop("alloc_fired", False)
        if not ok and alloc:
            return "peer"   # same narrow relaxation: what ran before the failure may or may not have been counted
        if not ok and isinstance(res, BackendFault):
            ctx.fault("peer-fault")
            return "peer"
        if not ok and fired and isinstance(res, OSError):
            ctx.probe("tracker-disk-fault")
            R["disk_fault_pending"] = True
            return "disk"
        if ok and fired:
            # the call returned although a disk fault fired while the record was written: fine if the tracker coped
            # and the record IS in the file (checked by the record check that follows), a swallowed error if not
            st["fault_absorbed"] = (fired[0][0], what)
            ctx.probe("tracker-fault-absorbed")
        return None

    def _unserialisable(self, ctx, R, ents):
        """The tracker serialises circuits with circuits.to_dict, which only covers gate operations; a circuit
        with a phase-only operation behind a tracker is outside the serialiser's domain: resync and judge nothing."""
        if R["spec"]["kind"] != "tracker":
            return False
        if not any(any(not hasattr(o, "gate") for o in e["c"].operations) for e in ents):
            return False
        for X in (R, R["inner"]):
            X["jobs"], X["circs"] = self._read_counters(X)
        ctx.probe("tracker-unserialisable-circuit")
        R["disk_fault_pending"] = True  # records of the circuits before the refused one stay queued in raw_data
        return True

    # -- run
    def _do_run(self, ctx, st, step, a):
        R, ent = self._runner(st, a["runner"]), self._circ(st, a["c"])
        B = self._base(R)
        n = a["n"]
        peers = self._peer_count(R)
        spy_mark = len(R["spy"].returned) if "spy" in R else 0
        self._arm(st, R, step)
        ok, res = call(R["obj"].run_and_measure, ent["c"], n)
        fired = self._disarm(ctx, st, R)
        ctx.called("run_and_measure:" + R["spec"]["kind"])
        what = f"run[{R['spec']['kind']}/{B['spec']['kind']}]"
        if n <= 0:
            self._rejected(ctx, st, R, ok, res, what, "rejected-run", peers)
            ctx.log("run", "rejected", runner=a["runner"])
            return
        symbolic = ent["kind"] == "sym" and B["spec"]["kind"] != "shot"
        if ent["kind"] == "sym":
            if not ok:
                ctx.probe("symbolic-circuit-refused")
                self._expect_counters(ctx, R, (R["jobs"], R["circs"]), (R["jobs"], R["circs"]), what + ":symbolic")
                self._expect_counters(ctx, B, (B["jobs"], B["circs"]), (B["jobs"], B["circs"]), what + ":symbolic")
            else:
                R["jobs"], R["circs"] = self._read_counters(R)
                B["jobs"], B["circs"] = self._read_counters(B)
            ctx.log("run", "symbolic", ok=ok)
            return
        if self._unserialisable(ctx, R, [ent]):
            ctx.log("run", "unserialisable")
            return
        f = self._finish_call(ctx, st, R, step, ok, res, fired, what)
        dj, dc = self._model_run_one(B, ent)
        if f == "peer":
            ctx.probe("peer-fault")
            self._expect_counters(ctx, B, (B["jobs"], B["circs"]), (B["jobs"] + dj, B["circs"] + dc), what + ":peer-fault")
            if R is not B:
                self._expect_counters(ctx, R, (R["jobs"], R["circs"]), (R["jobs"], R["circs"]), what + ":peer-fault:tracker")
            ctx.log("run", "peer-fault")
            return
        if f == "disk":
            self._expect_counters(ctx, B, (B["jobs"] + dj, B["circs"] + dc), (B["jobs"] + dj, B["circs"] + dc), what + ":disk-fault:inner")
            self._expect_counters(ctx, R, (R["jobs"], R["circs"]), (R["jobs"] + 1, R["circs"] + 1), what + ":disk-fault")
            ctx.log("run", "disk-fault")
            return
        ctx.check(ok, "unexpected-reject", what, lambda: f"{what}: valid request (n={n}, circuit {ent['c']!r}) raised {type(res).__name__}: {res}")
        with judge(ctx):
            self._check_measurement(ctx, ent, res, n, what, extra_ok=B["spec"]["kind"] == "shot" and B["spec"]["extra"] > 0)
        self._expect_growth(ctx, B, [ent], [(dj, dc)], what + (":inner" if R is not B else ""), peers)
        if R is not B:
            self._expect_counters(ctx, R, (R["jobs"] + 1, R["circs"] + 1), (R["jobs"] + 1, R["circs"] + 1), what + ":tracker-own")
            rets = [x for x in R["spy"].returned[spy_mark:] if x[0] == "run_and_measure"]
            ctx.check(len(rets) == 1 and rets[0][1] is res, "refine", "tracker-passthrough", f"{what}: tracker did not return the wrapped runner's object")
            self._tracker_record_check(ctx, st, R, [(ent, res)])
        if not ent["c"].operations:
            ctx.probe("empty-circuit")
        if ent["kind"] == "basis" and 0 < len(ent["c"].operations) < ent["n"]:
            ctx.probe("idle-qubits")
        if dj >= 2:
            ctx.probe("multi-segment")
        ctx.probe("run-ok")
        self._after_ok(ctx, st, R)
        ctx.log("run", "ok", runner=a["runner"], n=n, shots=len(res.bitstrings))

    # -- batch
    def _do_batch(self, ctx, st, step, a):
        R = self._runner(st, a["runner"])
        B = self._base(R)
        ents = [self._circ(st, c) for c in a["cs"]]
        ents = [e for e in ents if e["kind"] != "sym"]  # symbolic refusals are exercised by single runs
        ns = a["n"]
        if isinstance(ns, list):
            # keep the *kind* of invalidity chosen by the generator after filtering
            ns = list(ns)
            delta = len(a["cs"]) - len(ents)
            if delta and len(ns) >= delta:
                ns = ns[: len(ns) - delta]
        circuits = [e["c"] for e in ents]
        per = [ns] * len(ents) if isinstance(ns, int) else list(ns)
        invalid = None
        if len(per) != len(ents):
            invalid = "length"
        elif any(x <= 0 for x in per):
            invalid = "entry"
        peers = self._peer_count(R)
        spy_mark = len(R["spy"].returned) if "spy" in R else 0
        self._arm(st, R, step)
        # the signature says Sequence[Circuit] / Sequence[int]: tuples are as good as lists
        seq = a.get("seq", "list")
        circuits_arg = tuple(circuits) if seq in ("tuple", "tuple-circuits") else circuits
        ns_arg = tuple(ns) if (seq in ("tuple", "tuple-counts") and isinstance(ns, list)) else ns
        if seq != "list":
            ctx.probe("tuple-arguments")
        ok, res = call(R["obj"].run_batch_and_measure, circuits_arg, ns_arg)
        fired = self._disarm(ctx, st, R)
        ctx.called("run_batch_and_measure:" + R["spec"]["kind"])
        what = f"batch[{R['spec']['kind']}/{B['spec']['kind']}]"
        if invalid:
            self._rejected(ctx, st, R, ok, res, what + ":" + invalid, "rejected-batch-" + invalid, peers)
            ctx.log("batch", "rejected", why=invalid)
            return
        if self._unserialisable(ctx, R, ents):
            ctx.log("batch", "unserialisable")
            return
        f = self._finish_call(ctx, st, R, step, ok, res, fired, what)
        deltas = [self._model_run_one(B, e) for e in ents]
        tot = (sum(d[0] for d in deltas), sum(d[1] for d in deltas))
        if f == "peer":
            ctx.probe("peer-fault-mid-batch")
            if B["spec"]["kind"] == "shot" and isinstance(res, BackendFault):
                # the stub peer knows exactly how far the batch got: `done` circuits ran to completion before the
                # failing invocation - they were run, so they are counted; the failing one may or may not be
                done = len(B["obj"].calls) - peers - 1
                self._expect_counters(ctx, B, (B["jobs"] + done, B["circs"] + done), (B["jobs"] + done + 1, B["circs"] + done + 1),
                                      what + ":peer-fault-after-" + ("some" if done else "none"))
                if done:
                    ctx.probe("peer-fault-after-completed-circuits")
            else:
                self._expect_counters(ctx, B, (B["jobs"], B["circs"]), (B["jobs"] + tot[0], B["circs"] + tot[1]), what + ":peer-fault")
            if R is not B:
                j, c = self._read_counters(R)
                ctx.check(j >= R["jobs"] and c >= R["circs"], "counter", "decreased", f"{what}: tracker counters decreased")
                R["jobs"], R["circs"] = j, c
            ctx.log("batch", "peer-fault")
            return
        if f == "disk":
            self._expect_counters(ctx, B, (B["jobs"] + tot[0], B["circs"] + tot[1]), (B["jobs"] + tot[0], B["circs"] + tot[1]), what + ":disk-fault:inner")
            j, c = self._read_counters(R)
            ctx.check(j >= R["jobs"] and c >= R["circs"], "counter", "decreased", f"{what}: tracker counters decreased")
            R["jobs"], R["circs"] = j, c
            ctx.log("batch", "disk-fault")
            return
        ctx.check(ok, "unexpected-reject", what, lambda: f"{what}: valid batch ns={ns} raised {type(res).__name__}: {res}")
        with judge(ctx):
            ctx.check(isinstance(res, list) and len(res) == len(ents), "order", "result-count", f"{what}: {len(res)} results for {len(ents)} circuits")
            for i, (e, m, nreq) in enumerate(zip(ents, res, per)):
                self._check_measurement(ctx, e, m, nreq, f"{what}#{i}", extra_ok=B["spec"]["kind"] == "shot" and B["spec"]["extra"] > 0)
        self._expect_growth(ctx, B, ents, deltas, what + (":inner" if R is not B else ""), peers)
        if B["spec"]["kind"] == "shot":
            seen = B["obj"].calls[peers:]
            ctx.check([c for c, _ in seen] == circuits and [k for _, k in seen] == per, "order", "peer-requests",
                      f"{what}: the back-end did not receive the circuits/shot counts in order: {[k for _, k in seen]} vs {per}")
        if R is not B:
            j, c = self._read_counters(R)
            ctx.check(j >= R["jobs"] and c >= R["circs"], "counter", "decreased", f"{what}: tracker counters decreased")
            R["jobs"], R["circs"] = j, c
            rets = [x for x in R["spy"].returned[spy_mark:] if x[0] == "run_batch_and_measure"]
            ctx.check(len(rets) == 1 and rets[0][1] is res, "refine", "tracker-passthrough", f"{what}: tracker did not return the wrapped runner's list")
            self._tracker_record_check(ctx, st, R, list(zip(ents, res)))
        ctx.probe("batch-ok")
        self._after_ok(ctx, st, R)
        ctx.log("batch", "ok", runner=a["runner"], k=len(ents))

    # -- distribution
    def _do_dist(self, ctx, st, step, a):
        R, ent = self._runner(st, a["runner"]), self._circ(st, a["c"])
        B = self._base(R)
        if ent["kind"] == "sym":
            ctx.log("dist", "noop")
            return
        n = a["n"]
        peers = self._peer_count(R)
        spy_mark = len(R["spy"].returned) if "spy" in R else 0
        self._arm(st, R, step)
        ok, res = call(R["obj"].get_measurement_outcome_distribution, ent["c"], n)
        fired = self._disarm(ctx, st, R)
        ctx.called("get_measurement_outcome_distribution:" + R["spec"]["kind"])
        what = f"dist[{R['spec']['kind']}/{B['spec']['kind']}]"
        if n is not None and n <= 0:
            self._rejected(ctx, st, R, ok, res, what, "rejected-dist", peers)
            ctx.log("dist", "rejected")
            return
        if n is None and B["spec"]["kind"] == "shot":
            # a shot back-end needs a shot count; refusing is legitimate and nothing may run
            ctx.check(not ok, "unexpected-accept", what + ":none", "shot runner accepted n_samples=None")
            ctx.check(self._peer_count(R) == peers, "executed-before-reject", what + ":none", "back-end invoked for n_samples=None")
            self._expect_counters(ctx, B, (B["jobs"], B["circs"]), (B["jobs"], B["circs"]), what + ":none")
            ctx.log("dist", "refused-none")
            return
        if self._unserialisable(ctx, R, [ent]):
            ctx.log("dist", "unserialisable")
            return
        f = self._finish_call(ctx, st, R, step, ok, res, fired, what)
        dj, dc = self._model_run_one(B, ent)
        if f == "peer":
            self._expect_counters(ctx, B, (B["jobs"], B["circs"]), (B["jobs"] + dj, B["circs"] + dc), what + ":peer-fault")
            ctx.log("dist", "peer-fault")
            return
        if f == "disk":
            self._expect_counters(ctx, B, (B["jobs"] + dj, B["circs"] + dc), (B["jobs"] + dj, B["circs"] + dc), what + ":disk-fault:inner")
            ctx.log("dist", "disk-fault")
            return
        ctx.check(ok, "unexpected-reject", what, lambda: f"{what}: valid request n={n} raised {type(res).__name__}: {res}")
        with judge(ctx):
            d = res.distribution_dict
            tot = sum(d.values())
            ctx.check(abs(tot - 1.0) < 1e-9, "refine", "dist-normalised", f"{what}: distribution sums to {tot!r}")
            for k, p in d.items():
                if len(k) != ent["n"]:
                    ctx.fail("refine", "bitstring-length" + (":zero-qubit" if ent["n"] == 0 else ""), f"{what}: key {k} for width {ent['n']}")
                if "bits" in ent and p > 0:
                    ctx.check(tuple(k) == ent["bits"], "order", "shots-of-another-circuit", f"{what}: outcome {k} with p={p} for basis state {ent['bits']}")
        self._expect_growth(ctx, B, [ent], [(dj, dc)], what + (":inner" if R is not B else ""), peers)
        if R is not B:
            j, c = self._read_counters(R)
            ctx.check(j >= R["jobs"] and c >= R["circs"], "counter", "decreased", f"{what}: tracker counters decreased")
            R["jobs"], R["circs"] = j, c
            rets = [x for x in R["spy"].returned[spy_mark:] if x[0] == "get_measurement_outcome_distribution"]
            ctx.check(len(rets) == 1 and rets[0][1] is res, "refine", "tracker-passthrough", f"{what}: tracker did not return the wrapped runner's distribution")
            self._tracker_record_check(ctx, st, R, [(ent, None)], dist=(n, res))
        ctx.probe("dist-exact" if n is None else "dist-sampled")
        self._after_ok(ctx, st, R)
        ctx.log("dist", "ok", n=n)

    # -- wavefunction / exact expectation (simulators only)
    def _do_wf(self, ctx, st, step, a, exact=None):
        R, ent = self._runner(st, a["runner"]), self._circ(st, a["c"])
        if R["spec"]["kind"] in ("shot", "tracker") or ent["kind"] in ("sym", "zero"):
            ctx.log("wf", "noop")
            return
        peers = self._peer_count(R)
        self._arm(st, R, step)
        if exact is None:
            ok, res = call(R["obj"].get_wavefunction, ent["c"])
        else:
            ok, res = call(R["obj"].get_exact_expectation_values, ent["c"], exact)
        self._disarm(ctx, st, R)
        ctx.called("get_wavefunction:" + R["spec"]["kind"])
        dj, dc = self._segments(R, ent["c"])
        what = f"wf[{R['spec']['kind']}]"
        alloc = st.pop("alloc_fired", False)
        if not ok and alloc:
            self._expect_counters(ctx, R, (R["jobs"], R["circs"]), (R["jobs"] + dj, R["circs"] + dc), what + ":alloc-fault")
            ctx.log("wf", "alloc-fault")
            return
        if not ok and isinstance(res, BackendFault):
            ctx.fault("peer-fault")
            self._expect_counters(ctx, R, (R["jobs"], R["circs"]), (R["jobs"] + dj, R["circs"] + dc), what + ":peer-fault")
            ctx.log("wf", "peer-fault")
            return
        ctx.check(ok, "unexpected-reject", what, lambda: f"{what}: raised {type(res).__name__}: {res} for {ent['c']!r}")
        self._expect_growth(ctx, R, [ent], [(dj, dc)], what, peers)
        if dj >= 2:
            ctx.probe("multi-segment")
        ctx.probe("wf-ok")
        self._after_ok(ctx, st, R)
        ctx.log("wf", "ok", jobs=dj, circs=dc)

    def _do_exact(self, ctx, st, step, a):
        ent = self._circ(st, a["c"])
        spec = a["op"]
        # keep the operator inside the circuit's register
        terms = [t for t in spec["terms"] if all(int(q) < max(ent["n"], 1) for q in t["ops"])]
        if not terms:
            terms = [{"ops": {}, "c": 1.0}]
        op = gen.build_pauli({"kind": "sum", "terms": terms})
        self._do_wf(ctx, st, step, a, exact=op)

    def resync(self, ctx, st, step):
        for R in st["runners"]:
            R["jobs"], R["circs"] = self._read_counters(R)
            if R["spec"]["kind"] == "tracker":
                R["disk_fault_pending"] = True

    def finish(self, ctx, st):
        for R in st["runners"]:
            j, c = self._read_counters(R)
            ctx.check((j, c) == (R["jobs"], R["circs"]), "counter", "final", f"final counters ({j},{c}) != model ({R['jobs']},{R['circs']})")

    def shrink_step(self, s):
        a = s.get("args", {})
        if s["op"] == "batch" and len(a.get("cs", [])) > 1:
            k = len(a["cs"]) - 1
            n = a["n"] if isinstance(a["n"], int) else a["n"][:k] if len(a["n"]) == len(a["cs"]) else a["n"]
            yield {**s, "args": {**a, "cs": a["cs"][:k], "n": n}}


WORLD = World()
