"""C11 — operators and result artefacts survive dict, file and text round trips.

Store simulation over thirteen artefact kinds sharing one simulated disk: every
save/load pair of the library is driven through the handle kinds its functions are
annotated to accept, with overwrites (also by other kinds), failed and crashed saves
and loads of what those left behind.  Dict channels (through real JSON text) and the
operator text channel (print -> parse) are pure and are included as extra "media".
"""
import json
import math
import random

import numpy as np

from ..simkit.core import call, judge
from ..simkit.store import BUFFER_SIZES, LOAD_FAULTS, SAVE_FAULTS, Kind, Store

PID = "C11"
PATHS3 = ["str", "bytes", "pathlike"]
ALL4 = ["str", "bytes", "pathlike", "handle"]


# ---------------------------------------------------------------- spec builders
def num(spec):
    if isinstance(spec, dict):
        if "c" in spec:
            return complex(spec["c"][0], spec["c"][1])
        if "np32" in spec:
            return np.float32(spec["np32"])
        if "np64" in spec:
            return np.float64(spec["np64"])
    return spec


def arr(spec):
    """{"shape": [...], "re": flat list, "im": flat list | None, "int": bool}"""
    if spec is None:
        return None
    re = np.array(spec["re"], dtype=np.int64 if spec.get("int") else float).reshape(spec["shape"])
    if spec.get("im") is not None:
        return re.astype(float) + 1j * np.array(spec["im"], dtype=float).reshape(spec["shape"])
    return re


def term_map(terms):
    """{frozenset((q, op))): coefficient sum} of [(coef, {q: op})] - Pauli strings are linearly independent,
    so two operators denote the same matrix iff their maps agree."""
    out = {}
    mags = {}
    for c, ops in terms:
        key = frozenset((int(q), o) for q, o in ops.items() if o != "I")
        out[key] = out.get(key, 0) + complex(c)
        mags[key] = mags.get(key, 0.0) + abs(complex(c))
    return out, mags


def spec_terms(spec):
    return [(num(t["c"]), {int(q): o for q, o in t["ops"].items()}) for t in spec["terms"]]


def lib_terms(op):
    return [(t.coefficient, dict((q, o) for q, o in t.operations)) for t in op.terms]


def is_clearly_simplified(spec):
    keys = set()
    for t in spec["terms"]:
        k = frozenset((int(q), o) for q, o in t["ops"].items() if o != "I")
        if k in keys:
            return False
        keys.add(k)
        if abs(complex(num(t["c"]))) < 1e-6:
            return False
    return True


def op_diff(spec, loaded, P):
    if not isinstance(loaded, (P.PauliSum, P.PauliTerm)):
        return f"type: {type(loaded).__name__}"
    want, mags = term_map(spec_terms(spec))
    try:
        got, _ = term_map(lib_terms(loaded))
    except Exception as e:  # noqa: BLE001
        return f"malformed: cannot read terms of loaded operator ({type(e).__name__}: {e})"
    for key in set(want) | set(got):
        a, b = want.get(key, 0), got.get(key, 0)
        tol = 1e-8 * (1 + len(spec["terms"])) + 1e-13 * mags.get(key, 0.0)
        if not (abs(a - b) <= tol):
            return f"matrix: coefficient of {sorted(key)} is {b!r}, expected {a!r}"
    if is_clearly_simplified(spec):
        lt = list(loaded.terms)
        if len(lt) != len(spec["terms"]):
            return f"terms: {len(spec['terms'])} terms -> {len(lt)}"
        for key, a in want.items():
            b = got.get(key)
            if b is None or complex(b).real != a.real or complex(b).imag != a.imag:
                return f"exact: term {sorted(key)}: coefficient {a!r} -> {b!r}"
    return None


def build_op(spec, P):
    terms = [P.PauliTerm({int(q): o for q, o in t["ops"].items()}, num(t["c"])) for t in spec["terms"]]
    if spec.get("kind") == "term":
        return terms[0]
    s = P.PauliSum(terms)
    return s.simplify() if spec.get("simplify") else s


def array_diff(name, a, b):
    if a is None:
        return None if b is None else f"{name}: None -> {type(b).__name__}"
    if not isinstance(b, np.ndarray):
        return f"{name}: array -> {type(b).__name__}"
    if a.shape != b.shape:
        return f"{name}: shape {a.shape} -> {b.shape}"
    if not np.array_equal(a.astype(complex), b.astype(complex)):
        return f"{name}: values differ: {a.tolist()} -> {b.tolist()}"
    if np.iscomplexobj(b) and not np.iscomplexobj(a) and np.any(b.imag != 0):
        return f"{name}: real array came back complex"
    return None


def frames_diff(name, a, b):
    a = a or []
    if b is None:
        b = []
    if not isinstance(b, list):
        return f"{name}: list of frames -> {type(b).__name__}"
    if len(a) != len(b):
        return f"{name}: {len(a)} frames -> {len(b)}"
    for i, (x, y) in enumerate(zip(a, b)):
        d = array_diff(f"{name}", x, y)
        if d:
            return d + f" (frame {i})"
    return None


def strict_eq(a, b):
    """JSON-value equality that distinguishes bool/int/float and list/tuple."""
    if type(a) is not type(b):
        return False
    if isinstance(a, (list, tuple)):
        return len(a) == len(b) and all(strict_eq(x, y) for x, y in zip(a, b))
    if isinstance(a, dict):
        return set(a) == set(b) and all(strict_eq(a[k], b[k]) for k in a)
    if isinstance(a, float):
        return a == b and math.copysign(1, a) == math.copysign(1, b)
    return a == b


# ---------------------------------------------------------------- random specs
def rand_coef(r):
    k = r.random()
    if k < 0.30:
        return r.choice([1.0, -1.0, 0.5, 2.0, -0.25, 3, -7, 1, 0.1, 1e-3])
    if k < 0.50:
        return r.uniform(-3, 3)
    if k < 0.62:
        return r.uniform(1, 10) * 10 ** r.randint(-12, 14) * r.choice([1, -1])
    if k < 0.70:
        return r.choice([-0.0, 0.0, 0, 1e-12, -3e-9, 5e-7, 123456789012345.0, 999999999999999, 0.30000000000000004])
    if k < 0.80:
        return {"c": [r.uniform(-2, 2), r.uniform(-2, 2)]}
    if k < 0.86:
        return {"c": [0.0, r.choice([1.0, -1.0, 2.5, 1e-5, -3e4])]}        # purely imaginary
    if k < 0.92:
        return {"c": [r.uniform(-2, 2), r.choice([0.0, -0.0])]}             # zero imaginary part
    if k < 0.96:
        return {"c": [r.uniform(1, 9) * 10 ** r.randint(-9, 9), r.uniform(1, 9) * 10 ** r.randint(-9, 9) * r.choice([1, -1])]}
    return {"c": [r.choice([-0.0, 0.0]), r.uniform(-2, 2)]}


def rand_operator(r, kind=None):
    kind = kind or r.choice(["sum", "sum", "sum", "term"])
    qpool = r.choice([[0, 1, 2], [0, 1, 2, 3], [0, 7, 12, 105], [3, 999], [10, 11], [0]])
    if kind == "term":
        k = r.randint(0, min(3, len(qpool)))
        ops = {str(q): r.choice("XYZ") for q in r.sample(qpool, k)}
        return {"kind": "term", "terms": [{"ops": ops, "c": rand_coef(r)}]}
    n_terms = r.choice([0, 1, 1, 2, 3, 4, 6])
    terms = []
    for _ in range(n_terms):
        if r.random() < 0.2:
            ops = {}
        else:
            k = r.randint(1, len(qpool))
            ops = {str(q): r.choice("XYZ") for q in r.sample(qpool, k)}
        terms.append({"ops": ops, "c": rand_coef(r)})
        if r.random() < 0.15:
            terms.append({"ops": dict(ops), "c": rand_coef(r)})
    spec = {"kind": "sum", "terms": terms, "simplify": r.random() < 0.5}
    if terms and r.random() < 0.12:
        # two like terms that nearly cancel: huge opposite coefficients whose exact sum (an integer-valued double) is
        # small next to them - and far above the library's absolute 1e-8 zero tolerance
        ops = dict(r.choice(terms)["ops"]) or {str(qpool[0]): "Z"}
        big = float(r.randint(1, 9) * 10 ** r.randint(8, 12))
        delta = float(r.choice([1, 2, 5, 30, 1000]))
        terms.insert(r.randrange(len(terms) + 1), {"ops": ops, "c": big})
        terms.insert(r.randrange(len(terms) + 1), {"ops": dict(ops), "c": -big + delta})
        spec["simplify"] = False
        spec["cancelling"] = True
    return spec


def perturb(r, spec):
    """A copy of an operator spec (or list of specs) whose coefficients differ by ~1e-7 relative: distinct values
    that any tolerance-based notion of 'same term' (hash rounding, allclose) confuses with the originals."""
    if isinstance(spec, list):
        return [perturb(r, x) for x in spec]

    def bump(c):
        f = 1 + r.choice([-1, 1]) * r.uniform(1e-7, 6e-7)
        if isinstance(c, dict):
            return {"c": [c["c"][0] * f, c["c"][1] * f]}
        return float(c) * f if c else c
    return {**spec, "terms": [{**t, "c": bump(t["c"])} for t in spec["terms"]]}


def rand_array(r, shape, complex_p=0.4, ints=False):
    n = int(np.prod(shape))
    if ints:
        return {"shape": list(shape), "re": [r.randint(0, 50) for _ in range(n)], "im": None, "int": True}
    re = [r.choice([0.0, 1.0, -1.0, 0.5, r.uniform(-1, 1), r.uniform(-1, 1) * 10 ** r.randint(-12, 6)]) for _ in range(n)]
    im = None
    if r.random() < complex_p:
        im = [r.choice([0.0, 0.0, r.uniform(-1, 1), -0.25]) for _ in range(n)]
        if r.random() < 0.3:
            im = [0.0] * n           # complex dtype with an all-zero imaginary part
        if r.random() < 0.2:
            re = [0.0] * n           # purely imaginary data
    return {"shape": list(shape), "re": re, "im": im}


def rand_frames(r, complex_p, dims=2, ints=False):
    k = r.choice([None, 0, 1, 1, 3])
    if k is None:
        return None
    out = []
    for _ in range(k):
        n = r.randint(1, 4)
        shape = (n, n) if dims == 2 else (n, n, 2)
        out.append(rand_array(r, shape, complex_p, ints))
    return out


def rand_json(r, depth=0):
    k = r.random()
    if depth >= 3 or k < 0.55:
        return r.choice([0, 1, -3, 2 ** 40, 0.5, -0.0, 1e-9, 3.25e12, 0.1 + 0.2, "a", "", "x[3]", "ünï", True, False, None,
                         r.uniform(-5, 5), r.randint(-100, 100)])
    if k < 0.9:
        return [rand_json(r, depth + 1) for _ in range(r.randint(0, 4))]
    return {r.choice(["a", "b", "k1", "list"]): rand_json(r, depth + 1) for _ in range(r.randint(0, 3))}


def rand_value(r, kind):
    if kind == "operator":
        return rand_operator(r)
    if kind == "operator_set":
        return [rand_operator(r, "sum") for _ in range(r.choice([0, 1, 2, 3]))]
    if kind == "measurements":
        n = r.randint(1, 5)
        k = r.choice([0, 1, 2, 5, 12])
        # bits as Python ints, numpy integers or Python bools (bool is an int; json writes true/false)
        return {"bits": [[r.randint(0, 1) for _ in range(n)] for _ in range(k)], "np": r.random() < 0.3, "bool": r.random() < 0.15}
    if kind == "expvals":
        n = r.randint(1, 4)
        cp = r.choice([0.0, 0.5, 1.0])
        return {"values": rand_array(r, (n,), cp), "corr": rand_frames(r, cp), "cov": rand_frames(r, cp)}
    if kind == "parities":
        n = r.randint(1, 4)
        return {"values": rand_array(r, (n, 2), 0, True), "corr": rand_frames(r, 0, 3, True)}
    if kind == "value_estimate":
        v = r.choice([0.0, 1.5, -2.25, 1e-12, 123456.789, r.uniform(-10, 10), 3])
        p = r.choice([None, None, 0.1, 1e-6, 0.0, {"np32": 0.1}, {"np64": 0.001}, r.uniform(0, 1)])
        return {"value": v, "precision": p, "np_value": r.random() < 0.2}
    if kind == "list":
        return [rand_json(r, 1) for _ in range(r.randint(0, 5))]
    if kind == "layers":
        return [[[r.randint(0, 9) for _ in range(r.choice([2, 2, 3]))] for _ in range(r.randint(0, 3))] for _ in range(r.randint(0, 3))]
    if kind == "connectivity":
        return [[r.randint(0, 9) for _ in range(r.choice([2, 2, 3]))] for _ in range(r.randint(0, 5))]
    if kind == "ordering":
        k = r.randint(0, 6)
        return r.sample(range(k), k)
    if kind == "nmeas":
        return {"K": r.choice([1.0, 1234.5, r.uniform(0, 1e6)]), "nterms": r.randint(1, 20),
                "frame": r.choice([None, rand_array(r, (r.randint(1, 4),), 0.0)])}
    raise ValueError(kind)


KINDS = ["operator", "operator_set", "measurements", "expvals", "parities", "value_estimate", "list", "layers",
         "connectivity", "ordering", "nmeas"]
DICT_KINDS = ["operator", "expvals", "parities", "value_estimate", "layers", "connectivity"]


# ---------------------------------------------------------------- world
class World:
    PID = PID
    WATCHDOG_S = 60  # a run of this world takes well under a second; beyond this it is a hang
    TIERS = {
        "quick": {"runs": 16000, "budget_s": 45, "determinism_seeds": 16, "chunk": 200},
        "thorough": {"runs": 1500000, "budget_s": 900, "determinism_seeds": 200, "chunk": 500},
    }
    RULE = ("one case = one seeded session of save / load / dict-round-trip / text-round-trip steps over eleven artefact "
            "kinds sharing 1-6 paths on a simulated disk (every annotated handle kind; faults and crashes in a separate "
            "population); non-trivial = an acknowledged save was read back and compared, a failed save was followed by a "
            "load, or a dict/text round trip was compared; distinct = distinct (op, kind, outcome, fault) sequences (sha1)")
    COMPONENTS = {
        "real": ["operators._io (convert_op_to_dict/convert_dict_to_op, save_/load_operator, save_/load_operator_set; rapidjson)",
                 "PauliTerm/PauliSum __repr__ and string parser", "Measurements.save/load_from_file",
                 "ExpectationValues / Parities / ValueEstimate to_dict/from_dict and save_/load_ functions",
                 "utils.save_/load_list, save_/load_nmeas_estimate, convert_array_to_dict/convert_dict_to_array, ensure_open",
                 "circuits.layouts save_/load_circuit_layers, _connectivity, _ordering"],
        "stub": ["disk: SimFS injected as module-global open (open/write/close errors, torn writes, crash with torn prefix, short reads)"],
        "model": ["path -> ACK(kind, value) | UNKNOWN{old, new}", "per-kind comparators; operators compared as maps Pauli string -> coefficient"],
    }
    ASSUMPTIONS = [
        "operator coefficients are Python int/float/complex of magnitude < 1e15, finite; numpy scalars are not generated",
        "the same matrix means: every Pauli-string coefficient agrees to 1e-8*(1+#terms) absolute plus 1e-13 relative to the summed magnitudes (floating-point summation order)",
        "exact per-term preservation is demanded only for operators that are clearly simplified (distinct Pauli strings, |c| >= 1e-6)",
        "value arrays have at least one element (zero-length arrays lose their 2-D shape in JSON); None and [] both mean 'no frames'",
        "handle kinds demanded per function are those of its own annotation: AnyPath/LoadSource -> str, bytes, PathLike (+ open file for LoadSource); str/TextIO/unannotated -> str (+ open file where the docstring says file-like)",
        "NaN is excluded (cannot compare equal); no power-loss model",
    ]
    PROBES_EXPECTED = [
        "overwrite", "overwrite-other-kind", "torn-file-load", "text-roundtrip", "text-parsed-copy-edited", "dict-roundtrip", "op-constant-term",
        "op-empty-sum", "op-complex", "op-big-index", "op-unsimplified", "op-exact-compared", "expvals-complex", "frames-none",
        "frames-empty", "frames-many", "measurements-empty", "precision-none", "precision-numpy", "nmeas-without-frames",
        "via-bytes", "via-pathlike", "external-write",
    ] + [f"kind-{k}" for k in KINDS]

    # ------------------------------------------------------------ generation
    def _fault(self, r, cfg, kinds):
        p = {"none": 0.0, "low": 0.15, "medium": 0.4}[cfg["faults"]]
        if r.random() < p:
            return {"kind": r.choice(kinds), "at": r.randrange(0, 8), "frac": r.random()}
        return None

    def gen_plan(self, seed, tier):
        r = random.Random(seed)
        faulty = r.random() < 0.5
        kinds = r.sample(KINDS, r.randint(1, 5))
        if r.random() < 0.5 and "operator" not in kinds:
            kinds.append("operator")
        cfg = {
            "kinds": kinds,
            "fs_buffer": r.choice(BUFFER_SIZES),
            "faults": r.choice(["low", "medium"]) if faulty else "none",
            "paths": r.randint(1, 6),
            "clients": r.choice([1, 2, 3]),
        }
        n_steps = r.randint(4, 25 if tier == "quick" else 40)
        steps = []
        recent = []
        while len(steps) < n_steps:
            k = r.random()
            path = f"/d/a{r.randrange(cfg['paths'])}.json"
            if k < 0.45:
                if recent and r.random() < 0.2:
                    kind, val = r.choice(recent)
                    if kind in ("operator", "operator_set") and r.random() < 0.6:
                        val = perturb(r, val)   # same Pauli strings, coefficients a few 1e-7 relative away
                else:
                    kind = r.choice(kinds)
                    val = rand_value(r, kind)
                    recent = (recent + [(kind, val)])[-4:]
                s = {"op": "save", "args": {"kind": kind, "value": val, "path": path, "via": r.choice(ALL4)}}
                f = self._fault(r, cfg, SAVE_FAULTS)
                if f:
                    s["fault"] = f
            elif k < 0.72:
                s = {"op": "load", "args": {"kind": r.choice(kinds), "path": path, "via": r.choice(ALL4)}}
                f = self._fault(r, cfg, LOAD_FAULTS)
                if f:
                    s["fault"] = f
            elif k < 0.86:
                dk = [x for x in kinds if x in DICT_KINDS] or ["operator"]
                kind = r.choice(dk)
                val = rand_value(r, kind)
                prev = [v for k2, v in recent if k2 == "operator"]
                if kind == "operator" and prev and r.random() < 0.3:
                    val = perturb(r, r.choice(prev))
                s = {"op": "dict_roundtrip", "args": {"kind": kind, "value": val, "json": r.choice(["std", "rapid", "none"])}}
            elif k < 0.95:
                s = {"op": "text_roundtrip", "args": {"value": rand_operator(r)}}
            else:
                kind = r.choice(["operator", "operator_set"])
                s = {"op": "write_text", "args": {"kind": kind, "value": rand_value(r, kind), "path": path, "indent": r.choice([None, 0, 2]),
                                                  "json": r.choice(["std", "rapid"])}}
            steps.append(s)
        for s in steps:
            s["client"] = r.randrange(cfg["clients"])
            s["rs"] = r.getrandbits(32)
        return {"format": 1, "property": PID, "world": "store", "seed": seed, "config": cfg, "steps": steps}

    def sample(self, plan):
        def brief(s):
            a = dict(s.get("args", {}))
            if "value" in a:
                a["value"] = json.dumps(a["value"])[:160]
            return {"op": s["op"], "args": a, **({"fault": s["fault"]} if "fault" in s else {})}
        return {"seed": plan["seed"], "config": plan["config"], "steps": [brief(s) for s in plan["steps"][:8]],
                "n_steps": len(plan["steps"])}

    # ------------------------------------------------------------ execution
    def init(self, ctx, plan):
        from orquestra.quantum import utils as U
        from orquestra.quantum.circuits import layouts as L
        from orquestra.quantum.measurements import expectation_values as EV
        from orquestra.quantum.measurements import measurements as MM
        from orquestra.quantum.measurements import parities as PA
        from orquestra.quantum.operators import _io as OI
        from orquestra.quantum.operators import _pauli_operators as P

        st = {"P": P, "OI": OI, "U": U, "L": L, "EV": EV, "MM": MM, "PA": PA}
        store = Store(ctx, plan["config"].get("fs_buffer", 4096))
        st["store"] = store
        reg = store.register

        # value = {"spec": ..., "obj": library object(s)}
        def same_op(c, v, l):
            return op_diff(v["spec"], l, P)

        def same_opset(c, v, l):
            if not isinstance(l, list):
                return f"type: {type(l).__name__}"
            if len(l) != len(v["spec"]):
                return f"set-length: {len(v['spec'])} -> {len(l)}"
            for i, (s, o) in enumerate(zip(v["spec"], l)):
                d = op_diff(s, o, P)
                if d:
                    tag, _, rest = d.partition(":")
                    return f"{tag}: member {i}:{rest}"
            return None

        def op_feature(v):
            specs = v["spec"] if isinstance(v["spec"], list) else [v["spec"]]
            return ""

        reg(Kind("operator", lambda v, t: OI.save_operator(v["obj"], t), OI.load_operator, same_op, PATHS3, ALL4))
        reg(Kind("operator_set", lambda v, t: OI.save_operator_set(v["obj"], t), OI.load_operator_set, same_opset, PATHS3, ALL4))

        def same_meas(c, v, l):
            if not isinstance(l, MM.Measurements):
                return f"type: {type(l).__name__}"
            want = [tuple(b) for b in v["spec"]["bits"]]
            got = l.bitstrings
            if not isinstance(got, list) or len(got) != len(want):
                return f"shots: {len(want)} -> {len(got) if hasattr(got, '__len__') else got!r}"
            for i, (a, b) in enumerate(zip(want, got)):
                if not isinstance(b, tuple) or tuple(int(x) for x in b) != a or not all(isinstance(x, (int, np.integer)) for x in b):
                    return f"bitstring: shot {i}: {a} -> {b!r}"
            return None

        reg(Kind("measurements", lambda v, t: v["obj"].save(t), MM.Measurements.load_from_file, same_meas, PATHS3, ["str", "handle"]))

        def same_ev(c, v, l):
            if not isinstance(l, EV.ExpectationValues):
                return f"type: {type(l).__name__}"
            s = v["spec"]
            return (array_diff("values", arr(s["values"]), l.values)
                    or frames_diff("correlations", [arr(a) for a in s["corr"] or []], l.correlations)
                    or frames_diff("covariances", [arr(a) for a in s["cov"] or []], l.estimator_covariances))

        reg(Kind("expvals", lambda v, t: EV.save_expectation_values(v["obj"], t), EV.load_expectation_values, same_ev, PATHS3, ALL4))

        def same_par(c, v, l):
            if not isinstance(l, PA.Parities):
                return f"type: {type(l).__name__}"
            s = v["spec"]
            return (array_diff("values", arr(s["values"]), l.values)
                    or frames_diff("correlations", [arr(a) for a in s["corr"] or []], l.correlations))

        reg(Kind("parities", lambda v, t: PA.save_parities(v["obj"], t), PA.load_parities, same_par, PATHS3, ALL4))

        def same_ve(c, v, l):
            if not isinstance(l, U.ValueEstimate):
                return f"type: {type(l).__name__}"
            s = v["spec"]
            if float(l) != float(s["value"]):
                return f"value: {s['value']!r} -> {float(l)!r}"
            p = num(s["precision"])
            if p is None:
                if l.precision is not None:
                    return f"precision: None -> {l.precision!r}"
            elif l.precision is None or float(l.precision) != float(p):
                return f"precision: {p!r} -> {l.precision!r}"
            if not (l == v["obj"]) or (l != v["obj"]):
                return "lib-eq: loaded value estimate does not compare equal to the original"
            return None

        reg(Kind("value_estimate", lambda v, t: U.save_value_estimate(v["obj"], t), U.load_value_estimate, same_ve, PATHS3, ALL4))

        def same_list(c, v, l):
            return None if strict_eq(v["spec"], l) else f"list: {v['spec']!r} -> {l!r}"

        reg(Kind("list", lambda v, t: U.save_list(v["obj"], t), U.load_list, same_list, PATHS3, ALL4))

        def same_layers(c, v, l):
            if not isinstance(l, L.CircuitLayers):
                return f"type: {type(l).__name__}"
            want = [[tuple(x) for x in layer] for layer in v["spec"]]
            return None if strict_eq(want, l.layers) else f"layers: {want!r} -> {l.layers!r}"

        reg(Kind("layers", lambda v, t: L.save_circuit_layers(v["obj"], t), L.load_circuit_layers, same_layers, ["str"], ["str", "handle"]))

        def same_conn(c, v, l):
            if not isinstance(l, L.CircuitConnectivity):
                return f"type: {type(l).__name__}"
            want = [tuple(x) for x in v["spec"]]
            return None if strict_eq(want, l.connectivity) else f"connectivity: {want!r} -> {l.connectivity!r}"

        reg(Kind("connectivity", lambda v, t: L.save_circuit_connectivity(v["obj"], t), L.load_circuit_connectivity, same_conn,
                 ["str"], ["str", "handle"]))

        def same_ord(c, v, l):
            return None if strict_eq(v["spec"], l) else f"ordering: {v['spec']!r} -> {l!r}"

        reg(Kind("ordering", lambda v, t: L.save_circuit_ordering(v["obj"], t), L.load_circuit_ordering, same_ord, ["str"], ["str", "handle"]))

        def save_nmeas(v, t):
            s = v["spec"]
            if s["frame"] is None:
                U.save_nmeas_estimate(s["K"], s["nterms"], t)
            else:
                U.save_nmeas_estimate(s["K"], s["nterms"], t, arr(s["frame"]))

        def same_nmeas(c, v, l):
            s = v["spec"]
            if not isinstance(l, tuple) or len(l) != 3:
                return f"type: {l!r}"
            if l[0] != s["K"] or type(l[0]) is not float:
                return f"K: {s['K']!r} -> {l[0]!r}"
            if l[1] != s["nterms"] or type(l[1]) is not int:
                return f"nterms: {s['nterms']!r} -> {l[1]!r}"
            return array_diff("frame_meas", arr(s["frame"]), l[2])

        reg(Kind("nmeas", save_nmeas, U.load_nmeas_estimate, same_nmeas, PATHS3, PATHS3,
                 feature=lambda v: "without-frame-meas" if v["spec"]["frame"] is None else ""))
        return st

    def cleanup(self, st):
        st["store"].cleanup()

    # -- value construction (harness side)
    def _build(self, ctx, st, kind, spec):
        P, U, L, EV, MM, PA = st["P"], st["U"], st["L"], st["EV"], st["MM"], st["PA"]
        ctx.probe(f"kind-{kind}")
        if kind == "operator":
            self._op_probes(ctx, spec)
            return build_op(spec, P)
        if kind == "operator_set":
            for s in spec:
                self._op_probes(ctx, s)
            return [build_op(s, P) for s in spec]
        if kind == "measurements":
            if not spec["bits"]:
                ctx.probe("measurements-empty")
            bits = [tuple(np.int8(b) for b in bs) if spec["np"] else tuple(bs) for bs in spec["bits"]]
            if spec.get("bool") and not spec["np"]:
                bits = [tuple(bool(b) for b in bs) for bs in spec["bits"]]
                ctx.probe("measurements-bool-bits")
            return MM.Measurements(bits)
        if kind == "expvals":
            vals = arr(spec["values"])
            if np.iscomplexobj(vals):
                ctx.probe("expvals-complex")
            for fr in (spec["corr"], spec["cov"]):
                ctx.probe("frames-none" if fr is None else "frames-empty" if not fr else "frames-many" if len(fr) > 1 else "frames-one")
            return EV.ExpectationValues(vals, None if spec["corr"] is None else [arr(a) for a in spec["corr"]],
                                        None if spec["cov"] is None else [arr(a) for a in spec["cov"]])
        if kind == "parities":
            return PA.Parities(arr(spec["values"]), None if spec["corr"] is None else [arr(a) for a in spec["corr"]])
        if kind == "value_estimate":
            p = num(spec["precision"])
            ctx.probe("precision-none" if p is None else "precision-numpy" if isinstance(p, np.generic) else "precision-float")
            v = np.float64(spec["value"]) if spec.get("np_value") else spec["value"]
            return U.ValueEstimate(v, p)
        if kind == "list":
            return json.loads(json.dumps(spec))
        if kind == "layers":
            return L.CircuitLayers([[tuple(x) for x in layer] for layer in spec])
        if kind == "connectivity":
            return L.CircuitConnectivity([tuple(x) for x in spec])
        if kind == "ordering":
            return list(spec)
        if kind == "nmeas":
            if spec["frame"] is None:
                ctx.probe("nmeas-without-frames")
            return None
        raise ValueError(kind)

    @staticmethod
    def _op_probes(ctx, spec):
        ts = spec["terms"]
        if not ts and spec.get("kind") != "term":
            ctx.probe("op-empty-sum")
        if any(not t["ops"] for t in ts):
            ctx.probe("op-constant-term")
        if any(isinstance(t["c"], dict) for t in ts):
            ctx.probe("op-complex")
        if any(int(q) > 9 for t in ts for q in t["ops"]):
            ctx.probe("op-big-index")
        if not is_clearly_simplified(spec):
            ctx.probe("op-unsimplified")
        else:
            ctx.probe("op-exact-compared")

    @staticmethod
    def _text_feature(spec):
        ts = spec["terms"]
        feats = []
        if not ts:
            feats.append("empty-sum")
        elif any(not t["ops"] for t in ts):
            feats.append("constant-term")
        return "+".join(feats)

    def step(self, ctx, st, step):
        a = step["args"]
        op = step["op"]
        store = st["store"]
        if op == "load":
            out = store.load(ctx, a["kind"], a["path"], a["via"], step.get("fault"))
            if out in ("ok", "error"):
                ctx.nontrivial = True
            return
        kind = a.get("kind", "operator")
        ok, obj = call(self._build, ctx, st, kind, a["value"])
        if not ok:
            ctx.fail("unexpected-reject", f"construct:{kind}:{type(obj).__name__}", f"constructing a valid {kind} raised {type(obj).__name__}: {obj}")
        value = {"spec": a["value"], "obj": obj}
        if op == "save":
            via = a["via"] if a["via"] in store.kinds[kind].save_vias else store.kinds[kind].save_vias[0]
            ctx.probe("via-" + via)
            out = store.save(ctx, kind, value, a["path"], a["via"], step.get("fault"))
            if out == "ack":
                ctx.nontrivial = True
            return
        P, OI, U, L, EV, PA = st["P"], st["OI"], st["U"], st["L"], st["EV"], st["PA"]
        if op == "write_text":
            import rapidjson

            mod = json if a["json"] == "std" else rapidjson
            d = OI.convert_op_to_dict(obj) if kind == "operator" else {"operators": [OI.convert_op_to_dict(o) for o in obj]}
            text = mod.dumps(d, indent=a["indent"]) if a["indent"] is not None else mod.dumps(d)
            store.external_write(ctx, kind, value, a["path"], text)
            ctx.nontrivial = True
            return
        if op == "dict_roundtrip":
            ctx.probe("dict-roundtrip")
            to_d, from_d = {
                "operator": (OI.convert_op_to_dict, OI.convert_dict_to_op),
                "expvals": (lambda o: o.to_dict(), EV.ExpectationValues.from_dict),
                "parities": (lambda o: o.to_dict(), PA.Parities.from_dict),
                "value_estimate": (lambda o: o.to_dict(), U.ValueEstimate.from_dict),
                "layers": (lambda o: o.to_dict(), L.CircuitLayers.from_dict),
                "connectivity": (lambda o: o.to_dict(), L.CircuitConnectivity.from_dict),
            }[kind]
            ok, d = call(to_d, obj)
            if not ok:
                ctx.fail("unexpected-reject", f"to_dict:{kind}:{type(d).__name__}", f"to_dict of a valid {kind} raised {type(d).__name__}: {d}")
            if a["json"] != "none":
                import rapidjson

                mod = json if a["json"] == "std" else rapidjson
                ok, text = call(mod.dumps, d)
                if not ok:
                    ctx.fail("unexpected-reject", f"json:{kind}:{type(text).__name__}", f"dictionary form of {kind} is not JSON serialisable: {text}")
                d = mod.loads(text)
            ok, loaded = call(from_d, d)
            ctx.called(f"dict_roundtrip:{kind}")
            if not ok:
                ctx.fail("unexpected-reject", f"from_dict:{kind}:{type(loaded).__name__}", f"from_dict of a valid {kind} raised {type(loaded).__name__}: {loaded}")
            with judge(ctx, "compare-exception"):
                diff = store.kinds[kind].same(ctx, value, loaded)
            if diff is not None:
                ctx.fail("wrong-data", f"{kind}:{diff.split(':')[0]}", f"dict round trip changed the {kind}: {diff}")
            ctx.nontrivial = True
            ctx.log("dict_roundtrip", "ok", kind=kind, _sig=kind)
            return
        if op == "text_roundtrip":
            ctx.probe("text-roundtrip")
            spec = a["value"]
            feat = self._text_feature(spec)
            tag = f":{feat}" if feat else ""
            ok, text = call(str, obj)
            if not ok or not isinstance(text, str):
                ctx.fail("unexpected-reject", f"print:{type(text).__name__}{tag}", f"printing a valid operator raised {text!r}")
            parse = P.PauliTerm if spec["kind"] == "term" else P.PauliSum
            ok, parsed = call(parse, text)
            ctx.called("text_roundtrip")
            if not ok:
                ctx.fail("unexpected-reject", f"parse:{type(parsed).__name__}{tag}",
                         f"{parse.__name__}({text!r}) raised {type(parsed).__name__}: {parsed} (text printed by the library itself)")
            with judge(ctx, "compare-exception"):
                want, mags = term_map(spec_terms(spec))
                got, _ = term_map(lib_terms(parsed))
                for key in set(want) | set(got):
                    x, y = want.get(key, 0), got.get(key, 0)
                    tol = 1e-8 * (1 + len(spec["terms"])) + 1e-13 * mags.get(key, 0.0)
                    if not abs(x - y) <= tol:
                        ctx.fail("wrong-data", "text:matrix", f"parsing {text!r} gives coefficient {y!r} for {sorted(key)}, expected {x!r}")
            # the parsed operator is the client's own object: it re-weights it in place (unit conversion), then prints and
            # parses the ORIGINAL again - that round trip must not have been affected by what was done to the first copy
            if a.get("reuse", ctx.rng(step).random() < 0.5):
                try:
                    for t in ([parsed] if spec["kind"] == "term" else list(parsed.terms)):
                        t.coefficient = t.coefficient * 27.2114 + 1
                    if spec["kind"] != "term" and isinstance(parsed.terms, list):
                        parsed.terms.reverse()
                except Exception:  # noqa: BLE001 - how the client may edit its copy is not the point
                    pass
                ctx.probe("text-parsed-copy-edited")
                ok, text2 = call(str, obj)
                ok2, parsed2 = call(parse, text2) if ok else (False, text2)
                if not ok or not ok2 or text2 != text:
                    ctx.fail("wrong-data", "text:after-copy-edited", f"after the client edited the operator parsed from {text!r}, printing / parsing the "
                                                                     f"original again gave {text2!r} / {parsed2!r}")
                with judge(ctx, "compare-exception"):
                    got2, _ = term_map(lib_terms(parsed2))
                    for key in set(want) | set(got2):
                        x, y = want.get(key, 0), got2.get(key, 0)
                        tol = 1e-8 * (1 + len(spec["terms"])) + 1e-13 * mags.get(key, 0.0)
                        if not abs(x - y) <= tol:
                            ctx.fail("wrong-data", "text:matrix:after-copy-edited",
                                     f"parsing {text!r} a second time, after the client had re-weighted the first parsed copy in place, gives "
                                     f"coefficient {y!r} for {sorted(key)}, expected {x!r}")
            ctx.nontrivial = True
            ctx.log("text_roundtrip", "ok", text=text[:80])
            return
        raise ValueError(op)

    def finish(self, ctx, st):
        st["store"].final_durability(ctx)

    # ------------------------------------------------------------ shrinking
    def shrink_step(self, s):
        a = s.get("args", {})
        if a.get("via") not in (None, "str") and s["op"] in ("save", "load"):
            yield {**s, "args": {**a, "via": "str"}}
        if "value" not in a:
            return
        kind = a.get("kind", "operator")
        v = a["value"]
        if kind == "operator":
            for v2 in _shrink_operator(v):
                yield {**s, "args": {**a, "value": v2}}
        elif kind == "operator_set":
            for i in range(len(v)):
                yield {**s, "args": {**a, "value": v[:i] + v[i + 1:]}}
            for i, o in enumerate(v):
                for o2 in _shrink_operator(o):
                    yield {**s, "args": {**a, "value": v[:i] + [o2] + v[i + 1:]}}
        elif kind in ("list", "layers", "connectivity", "ordering") and isinstance(v, list):
            for i in range(len(v)):
                yield {**s, "args": {**a, "value": v[:i] + v[i + 1:]}}
        elif kind == "measurements":
            for i in range(len(v["bits"])):
                yield {**s, "args": {**a, "value": {**v, "bits": v["bits"][:i] + v["bits"][i + 1:]}}}
        elif kind == "expvals":
            for f in ("corr", "cov"):
                if v[f]:
                    yield {**s, "args": {**a, "value": {**v, f: v[f][:-1] or None}}}
                if v[f] is not None:
                    yield {**s, "args": {**a, "value": {**v, f: None}}}
        elif kind == "parities":
            if v["corr"] is not None:
                yield {**s, "args": {**a, "value": {**v, "corr": None}}}


def _shrink_operator(v):
    ts = v["terms"]
    if v.get("kind") != "term":
        for i in range(len(ts)):
            yield {**v, "terms": ts[:i] + ts[i + 1:]}
        if v.get("simplify"):
            yield {**v, "simplify": False}
    for i, t in enumerate(ts):
        if t["c"] != 2.0:
            yield {**v, "terms": ts[:i] + [{**t, "c": 2.0}] + ts[i + 1:]}
        for q in list(t["ops"]):
            ops = {k: o for k, o in t["ops"].items() if k != q}
            if ops or v.get("kind") != "term" or True:
                yield {**v, "terms": ts[:i] + [{**t, "ops": ops}] + ts[i + 1:]}


WORLD = World()
