"""C20 — value-returning operations never modify their arguments.

One pool of objects (circuits, gates, Pauli terms and sums, measurement sets, outcome
distributions, wavefunctions and the plain containers handed to them: symbol maps, count
dictionaries, state vectors, term lists, bit-string lists, serialised dictionaries) is
shared by 1-3 clients.  Every step calls one value-returning operation of the library on
pool members; results join the pool, so aliasing chains form (c + c, a sum sharing its
term objects with the list it was built from, bind returning self, Measurements sharing
the caller's list).  The *whole* pool is snapshotted before and after each call -
action at a distance through an alias is as visible as a change to an argument - and each
call is made twice with the same arguments and the same random stream: the results must
be equal.
"""
import copy
import json
import random
import warnings

import numpy as np
import sympy

from ..simkit import gen
from ..simkit.core import SimCrash, WallLimit, call, canon, judge, time_limit, clear_library_caches
from ..simkit.simfs import Seams, SimFS, SimPath
from ..simkit.simrng import POLICIES, SimRNG

PID = "C20"
POOL_CAP = 22


# ---------------------------------------------------------------- canonical observable state
def gate_sig(g):
    name = type(g).__name__
    if hasattr(g, "wrapped_gate"):
        extra = []
        if hasattr(g, "num_control_qubits"):
            extra.append(g.num_control_qubits)
        if hasattr(g, "exponent"):
            extra.append(canon(g.exponent))
        return [name, extra, gate_sig(g.wrapped_gate)]
    sig = [name, g.name, [canon(p) for p in g.params], g.num_qubits]
    mf = getattr(g, "matrix_factory", None)
    d = getattr(mf, "gate_definition", None)
    if d is not None:
        sig.append([d.gate_name, [sympy.srepr(e) for e in d.matrix], [sympy.srepr(s) for s in d.params_ordering]])
    return sig


def op_sig(op):
    if hasattr(op, "gate"):
        return ["gop", gate_sig(op.gate), [int(q) for q in op.qubit_indices]]
    return [type(op).__name__, [canon(p) for p in op.params]]


def pauli_sig(p):
    if type(p).__name__ == "PauliTerm":
        return ["T", canon(p.coefficient), sorted([int(q), o] for q, o in p.operations), repr(p)]
    return ["S", [pauli_sig(t) for t in p.terms]]


def snap_obj(t, o):
    if t == "C":
        return ["C", canon(o.n_qubits), [op_sig(x) for x in o.operations]]
    if t == "G":
        return gate_sig(o)
    if t == "P":
        return pauli_sig(o)
    if t == "M":
        return ["M", [[int(b) for b in bs] for bs in o.bitstrings]]
    if t == "D":
        return ["D", [[canon(k), canon(v)] for k, v in o.distribution_dict.items()]]
    if t == "W":
        return ["W", [canon(x) for x in o]]
    if t == "CL":
        return ["CL", [snap_obj("C", c) for c in o]]
    if t == "TL":
        return ["TL", [pauli_sig(x) for x in o]]
    if t == "OL":
        return ["OL", [op_sig(x) for x in o]]
    if t == "SM":
        return ["SM", [[canon(k), canon(v)] for k, v in o.items()]]
    return [t, canon(o)]


def canon_any(x, L):
    if isinstance(x, L["Circuit"]):
        return snap_obj("C", x)
    if isinstance(x, (L["PauliTerm"], L["PauliSum"])):
        return snap_obj("P", x)
    if isinstance(x, L["Measurements"]):
        return snap_obj("M", x)
    if isinstance(x, L["MOD"]):
        return snap_obj("D", x)
    if isinstance(x, L["Wavefunction"]):
        return snap_obj("W", x)
    if isinstance(x, L["ExpectationValues"]):
        return ["EV", canon(x.values), canon_any(x.correlations, L), canon_any(x.estimator_covariances, L)]
    if isinstance(x, L["Parities"]):
        return ["PA", canon(x.values), canon_any(x.correlations, L)]
    if isinstance(x, (L["GateOperation"],)) or type(x).__name__ == "MultiPhaseOperation":
        return op_sig(x)
    if isinstance(x, L["GateTypes"]):
        return gate_sig(x)
    if isinstance(x, L["CustomGateDefinition"]):
        return ["CGD", x.gate_name, [sympy.srepr(e) for e in x.matrix], [sympy.srepr(s) for s in x.params_ordering]]
    if hasattr(x, "toarray") and hasattr(x, "nnz"):
        return ["sparse", canon(np.asarray(x.toarray()))]
    if isinstance(x, (list, tuple)):
        return [canon_any(v, L) for v in x]
    if isinstance(x, dict):
        return {"d": sorted(([json.dumps(canon_any(k, L), sort_keys=True), canon_any(v, L)] for k, v in x.items()), key=lambda kv: kv[0])}
    if isinstance(x, (set, frozenset)):
        return ["set", sorted((canon_any(v, L) for v in x), key=lambda v: json.dumps(v, sort_keys=True))]
    return canon(x)


def classify(x, L):
    if isinstance(x, L["Circuit"]):
        return "C"
    if isinstance(x, (L["PauliTerm"], L["PauliSum"])):
        return "P"
    if isinstance(x, L["Measurements"]):
        return "M"
    if isinstance(x, L["MOD"]):
        return "D"
    if isinstance(x, L["Wavefunction"]):
        return "W"
    if isinstance(x, L["GateTypes"]):
        return "G"
    return None


# ---------------------------------------------------------------- operation table
# name -> (argument types, fn(L, args, k, env) -> result).  k: list of small ints from the plan.
def _ops():
    O = {}

    def op(name, *types):
        def deco(fn):
            O[name] = (types, fn)
            return fn
        return deco

    # ---- circuits
    op("c_add", "C", "C")(lambda L, a, k, e: a[0] + a[1])
    op("c_add_self", "C")(lambda L, a, k, e: a[0] + a[0])
    op("c_add_op", "C", "G")(lambda L, a, k, e: a[0] + a[1](*range(a[1].num_qubits)))
    op("c_bind", "C", "SM")(lambda L, a, k, e: a[0].bind(a[1]))
    op("c_inverse", "C")(lambda L, a, k, e: a[0].inverse())
    op("c_controlled", "C")(lambda L, a, k, e: a[0].controlled(k[0] % (a[0].n_qubits + 1)))
    op("c_to_dict", "C")(lambda L, a, k, e: L["to_dict"](a[0]))
    op("c_from_dict", "DD")(lambda L, a, k, e: L["circuit_from_dict"](a[0]))
    op("cl_to_dict", "CL")(lambda L, a, k, e: L["to_dict"](a[0]))
    op("c_save", "C")(lambda L, a, k, e: L["save_circuit"](a[0], e["path"](k)))
    op("cl_save", "CL")(lambda L, a, k, e: L["save_circuitset"](a[0], e["path"](k)))
    op("c_to_unitary", "C")(lambda L, a, k, e: _sim_ok(a[0]).to_unitary())
    op("c_from_list", "OL")(lambda L, a, k, e: L["Circuit"](a[0]) if k[0] % 2 else L["Circuit"](a[0], 1 + max([q for o in a[0] for q in o.qubit_indices] + [0]) + k[1] % 2))
    op("c_eq", "C", "C")(lambda L, a, k, e: a[0] == a[1])
    op("c_free_symbols", "C")(lambda L, a, k, e: list(a[0].free_symbols))
    op("c_collect_defs", "C")(lambda L, a, k, e: list(a[0].collect_custom_gate_definitions()))
    op("c_repr", "C")(lambda L, a, k, e: repr(a[0]))
    op("c_ops_nq", "C")(lambda L, a, k, e: (list(a[0].operations), a[0].n_qubits))
    op("c_new_from_ops", "C")(lambda L, a, k, e: L["Circuit"](a[0].operations, a[0].n_qubits or None))
    op("c_split", "C")(lambda L, a, k, e: [(b, c) for b, c in L["split_circuit"](
        a[0], lambda o: (len(getattr(o, "qubit_indices", ())) + k[0]) % 2 == 0)])
    op("cl_sum", "CL")(lambda L, a, k, e: sum(a[0][1:], a[0][0]) if a[0] else None)
    # ---- gates
    op("g_controlled", "G")(lambda L, a, k, e: a[0].controlled(1 + k[0] % 2))
    op("g_dagger", "G")(lambda L, a, k, e: a[0].dagger)
    op("g_power", "G")(lambda L, a, k, e: a[0].power([2, -1, 3, 0][k[0] % 4]))
    op("g_exp", "G")(lambda L, a, k, e: _cheap_exp(a[0]))
    op("g_bind", "G", "SM")(lambda L, a, k, e: a[0].bind(a[1]))
    op("g_matrix", "G")(lambda L, a, k, e: a[0].matrix)
    op("g_call", "G")(lambda L, a, k, e: a[0](*range(k[0] % 2, k[0] % 2 + a[0].num_qubits)))
    op("g_replace_params", "G")(lambda L, a, k, e: a[0].replace_params(tuple(0.25 * (i + 1) for i in range(len(a[0].params)))))
    op("g_eq", "G", "G")(lambda L, a, k, e: a[0] == a[1])
    op("g_to_dict", "G")(lambda L, a, k, e: L["to_dict"](a[0]))
    # compositions: what a derived object DOES must not depend on what its source was asked before (a bound / re-parametrised
    # gate evaluated straight away; compared with the same composition on pristine twins by the history-independence check)
    op("g_bind_matrix", "G", "SM")(lambda L, a, k, e: a[0].bind(a[1]).matrix)
    op("g_replace_matrix", "G")(lambda L, a, k, e: a[0].replace_params(tuple(0.25 * (i + 1) for i in range(len(a[0].params)))).matrix)
    op("g_wrap_matrix", "G")(lambda L, a, k, e: [a[0].dagger, a[0].controlled(1)][k[0] % 2].matrix)
    op("c_bind_unitary", "C", "SM")(lambda L, a, k, e: _sim_ok(a[0]).bind(a[1]).to_unitary())
    op("c_bind_wf", "C", "SM")(lambda L, a, k, e: e["sim"]().get_wavefunction(_sim_ok(a[0]).bind(a[1])))
    op("c_inverse_unitary", "C")(lambda L, a, k, e: _sim_ok(a[0]).inverse().to_unitary())
    # ---- simulators (RNG seam: same stream for both calls)
    op("sim_wf", "C")(lambda L, a, k, e: e["sim"]().get_wavefunction(_sim_ok(a[0])))
    op("sim_wf_init", "C", "V")(lambda L, a, k, e: e["sim"]().get_wavefunction(_sim_ok(a[0]), a[1]))
    op("sim_run", "C")(lambda L, a, k, e: e["sim"]().run_and_measure(_sim_ok(a[0]), 1 + k[0] % 40))
    op("sim_batch", "CL")(lambda L, a, k, e: e["sim"]().run_batch_and_measure([_sim_ok(c) for c in a[0]], 1 + k[0] % 20))
    op("sim_exact", "C", "P")(lambda L, a, k, e: e["sim"]().get_exact_expectation_values(_sim_ok(a[0]), a[1]))
    op("sim_dist", "C")(lambda L, a, k, e: e["sim"]().get_measurement_outcome_distribution(_sim_ok(a[0]), None if k[0] % 2 else 1 + k[1] % 30))
    # ---- operators
    op("p_add", "P", "P")(lambda L, a, k, e: a[0] + a[1])
    op("p_sub", "P", "P")(lambda L, a, k, e: a[0] - a[1])
    op("p_mul", "P", "P")(lambda L, a, k, e: a[0] * a[1])
    op("p_add_self", "P")(lambda L, a, k, e: a[0] + a[0])
    op("p_mul_self", "P")(lambda L, a, k, e: a[0] * a[0])
    op("p_num_r", "P")(lambda L, a, k, e: [a[0] + NUMS[k[0] % len(NUMS)], a[0] - NUMS[k[0] % len(NUMS)], a[0] * NUMS[k[0] % len(NUMS)]])
    op("p_num_l", "P")(lambda L, a, k, e: [NUMS[k[0] % len(NUMS)] + a[0], NUMS[k[0] % len(NUMS)] - a[0], NUMS[k[0] % len(NUMS)] * a[0]])
    op("p_div", "P")(lambda L, a, k, e: a[0] / [2, 0.5, -4, 2j][k[0] % 4])
    op("p_pow", "P")(lambda L, a, k, e: a[0] ** (k[0] % 4))
    op("p_simplify", "P")(lambda L, a, k, e: a[0].simplify() if hasattr(a[0], "simplify") else L["PauliSum"]([a[0]]).simplify())
    op("p_hc", "P")(lambda L, a, k, e: L["hermitian_conjugated"](a[0]))
    op("p_is_hermitian", "P")(lambda L, a, k, e: L["is_hermitian"](a[0]))
    op("p_to_dict", "P")(lambda L, a, k, e: L["convert_op_to_dict"](a[0]))
    op("p_save", "P")(lambda L, a, k, e: L["save_operator"](a[0], e["path"](k)))
    op("p_save_set", "P", "P")(lambda L, a, k, e: L["save_operator_set"]([a[0], a[1]], e["path"](k)))
    op("p_from_dict", "OD")(lambda L, a, k, e: L["convert_dict_to_op"](a[0]))
    op("p_sparse", "P")(lambda L, a, k, e: L["get_sparse_operator"](a[0], None if k[0] % 2 else max(a[0].n_qubits, 1) + 1))
    op("p_reverse", "P")(lambda L, a, k, e: L["reverse_qubit_order"](a[0], None if k[0] % 2 else a[0].n_qubits + 1))
    op("p_repr", "P")(lambda L, a, k, e: (repr(a[0]), str(a[0])))
    op("p_eq", "P", "P")(lambda L, a, k, e: a[0] == a[1])
    op("p_hash", "P")(lambda L, a, k, e: hash(a[0]) == hash(a[0]))
    op("p_props", "P")(lambda L, a, k, e: (a[0].is_ising, a[0].is_constant, a[0].n_qubits, sorted(a[0].qubits), len(a[0])))
    # augmented assignment through a second name: `x = a; x += b` must leave `a` as it was
    def _aug(kind):
        def f(L, a, k, e):
            x = a[0]
            num = NUMS[k[0] % len(NUMS)]
            if kind == "iadd":
                x += a[1]
            elif kind == "isub":
                x -= a[1]
            elif kind == "imul":
                x *= a[1]
            elif kind == "iadd_num":
                x += num
            elif kind == "imul_num":
                x *= num
            elif kind == "idiv_num":
                x /= [2, 0.5, -4, 2j][k[0] % 4]
            elif kind == "ipow":
                x **= k[0] % 3
            return x
        return f
    op("p_iadd", "P", "P")(_aug("iadd"))
    op("p_isub", "P", "P")(_aug("isub"))
    op("p_imul", "P", "P")(_aug("imul"))
    op("p_iadd_num", "P")(_aug("iadd_num"))
    op("p_imul_num", "P")(_aug("imul_num"))
    op("p_idiv_num", "P")(_aug("idiv_num"))
    op("p_ipow", "P")(_aug("ipow"))

    def _c_iadd(L, a, k, e):
        x = a[0]
        x += a[1]
        return x
    op("c_iadd", "C", "C")(_c_iadd)
    op("p_qubits", "P")(lambda L, a, k, e: a[0].qubits)
    op("p_operations", "P")(lambda L, a, k, e: a[0].operations if hasattr(a[0], "operations") else [t.operations for t in a[0].terms])
    op("p_circuits", "P")(lambda L, a, k, e: a[0].circuits if hasattr(a[0], "circuits") else a[0].circuit)
    op("p_copy", "P")(lambda L, a, k, e: a[0].copy() if hasattr(a[0], "copy") else L["PauliSum"](list(a[0].terms)))
    op("p_terms", "P")(lambda L, a, k, e: list(a[0].terms))
    op("p_pauli_strings", "P")(lambda L, a, k, e: L["get_pauli_strings"](a[0]))
    op("p_sum_from_terms", "TL")(lambda L, a, k, e: L["PauliSum"](a[0]))
    op("p_expectation_wf", "P", "W")(lambda L, a, k, e: L["get_expectation_value"](a[0], a[1]))
    # ---- measurements
    op("m_new", "BL")(lambda L, a, k, e: L["Measurements"](a[0]))
    op("m_counts", "M")(lambda L, a, k, e: a[0].get_counts())
    op("m_distribution", "M")(lambda L, a, k, e: a[0].get_distribution())
    op("m_expvals", "M", "P")(lambda L, a, k, e: a[0].get_expectation_values(a[1], bool(k[0] % 2)))
    op("m_parities", "M", "P")(lambda L, a, k, e: L["get_parities_from_measurements"](a[0].bitstrings, a[1]))
    op("m_from_counts", "CD")(lambda L, a, k, e: L["Measurements"].from_counts(a[0]))
    op("m_representing", "D")(lambda L, a, k, e: L["Measurements"].get_measurements_representing_distribution(a[0], 1 + k[0] % 60))
    op("m_save", "M")(lambda L, a, k, e: a[0].save(e["path"](k)))
    # N chosen so that the shares p_i * N are the x.5 / 0.25 values an "overshoot" distribution was built from: rounding then
    # hands out too many shots and the elimination branch (which edits a working copy of the distribution) runs
    op("m_representing_fit", "D")(lambda L, a, k, e: L["Measurements"].get_measurements_representing_distribution(
        a[0], max(1, int(round(0.25 / min(v for v in a[0].distribution_dict.values() if v > 0))))))
    op("m_expectation_freq", "M", "P")(lambda L, a, k, e: L["get_expectation_value_from_frequencies"](
        sorted(a[1].qubits)[: 1 + k[0] % 3], a[0].get_counts()))
    # ---- distributions
    op("d_new", "CD2")(lambda L, a, k, e: L["MOD"](a[0]))
    op("d_marginal", "D")(lambda L, a, k, e: a[0].subdistribution(e["qubits"](a[0], k)))
    # the parameter dictionaries (and the numpy bandwidth arrays inside them) are caller-owned pool members
    op("d_mmd", "D", "D", "PD")(lambda L, a, k, e: L["compute_mmd"](a[0], a[1], a[2]))
    op("d_nll", "D", "D", "PD")(lambda L, a, k, e: L["compute_nll"](a[0], a[1], a[2]))
    op("d_js", "D", "D", "PD")(lambda L, a, k, e: L["compute_js"](a[0], a[1], a[2]))
    op("d_eval", "D", "D", "PD")(lambda L, a, k, e: L["evaluate_distance"](
        a[0], a[1], [L["compute_nll"], L["compute_mmd"], L["compute_js"]][k[0] % 3], distance_measure_parameters=a[2]))
    op("d_save", "D")(lambda L, a, k, e: L["save_dist"](a[0], e["path"](k)))
    op("d_save_list", "D", "D")(lambda L, a, k, e: L["save_dists"]([a[0], a[1]], "/d/dists.json"))
    op("d_props", "D")(lambda L, a, k, e: (a[0].get_number_of_subsystems(), repr(a[0])))
    # ---- wavefunctions
    op("w_new", "V")(lambda L, a, k, e: L["Wavefunction"](a[0]))
    op("w_dicke", )(lambda L, a, k, e: L["Wavefunction"].dicke_state(1 + k[0] % 4, k[1] % (2 + k[0] % 4)))
    op("w_zero", )(lambda L, a, k, e: L["Wavefunction"].zero_state(1 + k[0] % 3))
    op("w_amplitudes", "W")(lambda L, a, k, e: np.array(a[0].amplitudes))
    op("w_probs", "W")(lambda L, a, k, e: a[0].get_probabilities())
    op("w_outcome_probs", "W")(lambda L, a, k, e: a[0].get_outcome_probs())
    op("w_flip", "W")(lambda L, a, k, e: L["flip_wavefunction"](a[0]))
    op("w_flip_amplitudes", "V")(lambda L, a, k, e: L["flip_amplitudes"](a[0]))
    op("w_sample", "W")(lambda L, a, k, e: L["sample_from_wavefunction"](a[0], 1 + k[0] % 40, None if k[1] % 2 else k[1]))
    op("w_bind", "W", "SM")(lambda L, a, k, e: a[0].bind(a[1]))
    op("w_props", "W")(lambda L, a, k, e: (len(a[0]), a[0].n_qubits, sorted(map(str, a[0].free_symbols)), str(a[0])))
    op("w_eq", "W", "W")(lambda L, a, k, e: a[0] == a[1])
    op("w_save", "W")(lambda L, a, k, e: L["save_wavefunction"](a[0], e["path"](k)))
    op("w_apply_op", "C", "V")(lambda L, a, k, e: a[0].operations[k[0] % len(a[0].operations)].apply(a[1]))
    return O


def _sim_ok(c):
    """Symbolic state evolution grows into expression trees that sympy needs minutes to evaluate (a 9-gate circuit
    with two symbols took 20 s per call); pool circuits also double under c + c.  The harness only simulates what
    stays cheap - anything else is a skipped call, not a judgement."""
    n_ops = len(c.operations)
    if n_ops > 40 or (c.free_symbols and n_ops > 3):
        raise ValueError("harness: circuit too long to evaluate in sympy")
    return c


def _cheap_exp(g):
    """sympy's Matrix.exp() takes minutes on anything with irrational or float entries (T, RX(0.3), exp(exp(X)) ...);
    such gates would later stall g_matrix / to_unitary / the simulator, so the harness only exponentiates these."""
    if type(g).__name__ != "MatrixFactoryGate" or g.name not in ("X", "Y", "Z", "I", "H"):
        raise ValueError("harness: exponential of this gate is too slow to evaluate in sympy")
    return g.exp


NUMS = [2, 0.5, -1.5, 0, 1j, (1 + 2j), 1]
OPS = _ops()
SAVE_OPS = ("m_save", "d_save", "w_save", "d_save_list", "p_save", "p_save_set", "c_save", "cl_save")

MK_TYPES = ["C", "C", "C", "G", "P", "P", "P", "M", "D", "D", "W", "SM", "CD", "CD2", "V", "CL", "TL", "BL", "DD", "OD", "PD", "PD", "OL", "OL"]


class World:
    PID = PID
    TIERS = {
        "quick": {"runs": 2500, "budget_s": 50, "determinism_seeds": 8, "chunk": 25},
        "thorough": {"runs": 150000, "budget_s": 900, "determinism_seeds": 100, "chunk": 100},
    }
    RULE = ("one case = one seeded history of value-returning library calls by 1-3 clients on one shared pool of objects "
            "(results join the pool); every call is made twice; non-trivial = at least 5 calls returned and at least one of "
            "them took an argument that is itself the result of an earlier call (an alias chain); distinct = distinct "
            "(operation, outcome) sequences (sha1)")
    COMPONENTS = {
        "real": ["Circuit / gates / GateOperation (+, bind, inverse, controlled, to_dict, circuit_from_dict, to_unitary, ==, free_symbols, collect_custom_gate_definitions, split_circuit)",
                 "PauliTerm / PauliSum arithmetic, simplify, hermitian_conjugated, is_hermitian, dict conversion, get_sparse_operator, reverse_qubit_order, repr, ==, hash, is_ising, circuits",
                 "Measurements (get_counts, get_distribution, get_expectation_values, from_counts, get_measurements_representing_distribution, save), get_parities_from_measurements",
                 "MeasurementOutcomeDistribution (subdistribution, distances, save)", "Wavefunction readers, flip_*, sample_from_wavefunction, bind, save",
                 "SymbolicSimulator (get_wavefunction, run_and_measure, run_batch_and_measure, get_exact_expectation_values, get_measurement_outcome_distribution)"],
        "stub": ["numpy random generators (SimRNG: real generators re-seeded identically for both calls, or adversarial legal draws)",
                 "disk: SimFS for the save operations (optionally failing)"],
        "model": ["canonical observable snapshot of the whole pool (public attributes, iteration, repr) before/after every call"],
    }
    ASSUMPTIONS = [
        "observable state = what public attributes, iteration and repr show; lazily cached private fields (_circuit, _circuits, _is_ising) are not observable",
        "only calls that return are judged (the property speaks of operations that return a value); after a call that raises the pool is re-snapshotted",
        "mutators (add_counts, __setitem__, +=) are not value-returning operations and are not called",
        "a second call with the same arguments sees the same random stream (that is what 'same operation on the same arguments' means for a sampler)",
    ]
    PROBES_EXPECTED = ["alias-chain", "call-raised", "bind-returned-self", "shared-term-objects", "shared-bitstring-list",
                       "rng-default_rng", "rng-global-choice", "save-fault", "client-mutation", "result-edited"] + [f"op:{n}" for n in OPS]

    # ------------------------------------------------------------ generation
    def _mk(self, r, cfg, t):
        n = r.choice(cfg["widths"])
        syms = cfg["symbols"]
        if t == "C":
            symbolic = r.choice([0.0, 0.0, 0.4])
            spec = gen.rand_circuit(r, n, r.randint(0, 5), phase_ops=r.choice([0, 0.2, 0.35]) if not symbolic else 0, explicit_n=0.5, max_arity=min(n, 3),
                                    symbolic=symbolic, symbols=syms, custom=0.15, wrappers=0.3, depth=2, powexp=False)
            return {"t": "C", "spec": spec}
        if t == "G":
            return {"t": "G", "spec": gen.rand_gate(r, max_arity=2, wrappers=0.3, depth=2, powexp=False, symbolic=r.choice([0, 0.5]), symbols=syms, custom=0.2)}
        if t == "P":
            kind = r.choice(["sum", "sum", "term"])
            ops_alphabet = "Z" if r.random() < 0.5 else "XYZ"
            spec = gen.rand_pauli(r, n, 1 if kind == "term" else r.randint(0, 4), ops=ops_alphabet, complex_coef=0.2)
            spec["kind"] = kind
            if kind == "term":
                spec["terms"] = spec["terms"][:1]
            spec["simplify"] = r.random() < 0.3
            return {"t": "P", "spec": spec}
        if t in ("M", "BL"):
            k = r.choice([0, 1, 3, 8])
            return {"t": t, "spec": [[r.randint(0, 1) for _ in range(n)] for _ in range(k)], "np": r.random() < 0.2}
        if t == "D" and n >= 2 and r.random() < 0.25:
            # "overshoot" shares: several x.5 counts (rounded up) next to 0.25 counts (rounded to no shot at all)
            import itertools
            keys = r.sample(list(itertools.product((0, 1), repeat=n)), r.randint(4, 2 ** n))
            small = r.randint(2, max(2, len(keys) // 2))
            cs = [r.choice([0.5, 1.5, 1.5, 2.5, 3.5]) for _ in range(len(keys) - small)]
            tail = [0.25] * small
            tail[0] += (1 - (sum(cs) % 1 + 0.25 * small) % 1) % 1
            cs += tail
            r.shuffle(cs)
            tot = sum(cs)
            return {"t": "D", "spec": [[list(k_), c / tot] for k_, c in zip(keys, cs)], "style": r.choice(["tuple", "bits"]), "raw": False}
        if t in ("D", "CD2"):
            keys = sorted({tuple(r.randint(0, 1) for _ in range(n)) for _ in range(r.randint(1, 5))})
            ws = [r.choice([1, 2, 0.5, r.random()]) for _ in keys]
            tot = sum(ws) if r.random() < 0.6 else 1.0   # sometimes unnormalised: the constructor then rescales
            return {"t": t, "spec": [[list(k), w / tot] for k, w in zip(keys, ws)], "style": r.choice(["tuple", "bits"]),
                    "raw": r.random() < 0.3}   # raw: kept as given (normalize=False), whatever the weights sum to
        if t == "W":
            kind = r.choice(["num", "num", "basis", "sym"])
            return {"t": "W", "n": n, "kind": kind, "seed": r.getrandbits(30)}
        if t == "V":
            return {"t": "V", "n": n, "seed": r.getrandbits(30), "as_list": r.random() < 0.3}
        if t == "SM":
            return {"t": "SM", "spec": {s: r.choice([0.5, -1.25, 0, 2, 3.0]) for s in r.sample(syms + ["a", "b"], r.randint(0, 3))}}
        if t == "PD":
            sig = r.choice([None, 1.0, 0.1, 7.5, [0.25, 10.0], {"np": [0.5, 2.0, 30.0]}, {"np": [1.0]}])
            eps = r.choice([None, 1e-9, 1e-6, 1e-3])
            return {"t": "PD", "sigma": sig, "epsilon": eps}
        if t == "CD":
            return {"t": "CD", "spec": {"".join(str(r.randint(0, 1)) for _ in range(n)): r.randint(0, 6) for _ in range(r.randint(0, 4))}}
        if t == "CL":
            return {"t": "CL", "spec": [gen.rand_circuit(r, n, r.randint(1, 3), explicit_n=1.0, max_arity=min(n, 2), wrappers=0.2, powexp=False) for _ in range(r.randint(0, 3))]}
        if t == "TL":
            spec = gen.rand_pauli(r, n, r.randint(0, 4), ops="XYZ", complex_coef=0.2)
            return {"t": "TL", "spec": spec}
        if t == "OL":
            return {"t": "OL", "spec": gen.rand_circuit(r, n, r.randint(1, 4), explicit_n=0.0, max_arity=min(n, 2), wrappers=0.2, powexp=False, custom=0.1)}
        if t == "DD":
            return {"t": "DD", "spec": gen.rand_circuit(r, n, r.randint(0, 4), explicit_n=0.5, max_arity=min(n, 3), symbolic=0.3, symbols=syms, custom=0.2, wrappers=0.3, powexp=False)}
        if t == "OD":
            return {"t": "OD", "spec": gen.rand_pauli(r, n, r.randint(0, 4), ops="XYZ", complex_coef=0.3)}
        raise ValueError(t)

    def gen_plan(self, seed, tier):
        r = random.Random(seed)
        cfg = {
            "widths": r.choice([[1, 2], [2], [2, 3], [3]]),
            "symbols": r.choice([["theta", "phi"], ["x", "y", "theta"], ["beta", "gamma"]]),
            "clients": r.choice([1, 2, 3]),
            "rng_mode": r.choice(["real", "real", "adversarial"]),
            "rng_policy": r.choice(POLICIES),
            "sim_seed": r.choice([None, None, 7]),
            "cache_clear": r.choice([0.0, 0.2]),
            "save_faults": r.choice([0.0, 0.0, 0.3]),
        }
        steps = []
        for t in r.sample(MK_TYPES, r.randint(6, 12)):
            steps.append({"op": "mk", "args": self._mk(r, cfg, t)})
        n_steps = len(steps) + r.randint(8, 30 if tier == "quick" else 50)
        names = sorted(OPS)
        focus = r.sample(names, r.randint(8, 25))
        while len(steps) < n_steps:
            k = r.random()
            if k < 0.08:
                steps.append({"op": "mk", "args": self._mk(r, cfg, r.choice(MK_TYPES))})
                continue
            if k < 0.16:
                steps.append({"op": "mutate", "args": {"ref": r.randrange(1 << 16), "k": r.randrange(1 << 12)}})
                continue
            name = r.choice(focus) if r.random() < 0.7 else r.choice(names)
            s = {"op": "call", "args": {"name": name, "refs": [r.randrange(1 << 16) for _ in range(3)], "k": [r.randrange(1 << 12) for _ in range(3)]}}
            if name in SAVE_OPS and r.random() < cfg["save_faults"]:
                s["fault"] = {"kind": r.choice(["enospc", "eio", "eacces", "eio_close"]), "at": r.randrange(0, 4), "frac": r.random()}
            steps.append(s)
        for s in steps:
            s["client"] = r.randrange(cfg["clients"])
            s["rs"] = r.getrandbits(32)
            s["clear"] = r.random() < cfg["cache_clear"]
        return {"format": 1, "property": PID, "world": "values", "seed": seed, "config": cfg, "steps": steps}

    def sample(self, plan):
        out = []
        for s in plan["steps"][:14]:
            if s["op"] == "mk":
                out.append({"op": "mk", "type": s["args"]["t"]})
            elif s["op"] == "mutate":
                out.append({"op": "client-mutates-own-container", "ref": s["args"]["ref"]})
            else:
                out.append({"op": s["args"]["name"], "refs": s["args"]["refs"]})
        return {"seed": plan["seed"], "config": plan["config"], "steps": out, "n_steps": len(plan["steps"])}

    # ------------------------------------------------------------ execution
    def init(self, ctx, plan):
        from orquestra.quantum import circuits as C
        from orquestra.quantum import distributions as D
        from orquestra.quantum import measurements as MS
        from orquestra.quantum import operators as OP
        from orquestra.quantum import utils as U
        from orquestra.quantum import wavefunction as WF
        from orquestra.quantum.circuits import _gates as G
        from orquestra.quantum.circuits import _serde as S
        from orquestra.quantum.distributions import _measurement_outcome_distribution as DM
        from orquestra.quantum.measurements import measurements as MM
        from orquestra.quantum.runners.symbolic_simulator import SymbolicSimulator

        cfg = plan["config"]
        L = {
            "Circuit": C.Circuit, "split_circuit": C.split_circuit, "to_dict": S.to_dict, "circuit_from_dict": S.circuit_from_dict,
            "GateOperation": G.GateOperation, "CustomGateDefinition": G.CustomGateDefinition,
            "GateTypes": (G.MatrixFactoryGate, G.ControlledGate, G.Dagger, G.Power, G.Exponential),
            "PauliTerm": OP.PauliTerm, "PauliSum": OP.PauliSum, "hermitian_conjugated": OP.hermitian_conjugated,
            "is_hermitian": OP.is_hermitian, "convert_op_to_dict": OP.convert_op_to_dict, "convert_dict_to_op": OP.convert_dict_to_op,
            "get_sparse_operator": OP.get_sparse_operator, "reverse_qubit_order": OP.reverse_qubit_order,
            "get_pauli_strings": OP.get_pauli_strings, "get_expectation_value": OP.get_expectation_value,
            "Measurements": MS.Measurements, "ExpectationValues": MS.ExpectationValues, "Parities": MS.Parities,
            "get_parities_from_measurements": MS.get_parities_from_measurements,
            "get_expectation_value_from_frequencies": MM.get_expectation_value_from_frequencies,
            "MOD": D.MeasurementOutcomeDistribution, "compute_mmd": D.compute_mmd,
            "compute_nll": D.compute_clipped_negative_log_likelihood, "compute_js": D.compute_jensen_shannon_divergence,
            "evaluate_distance": D.evaluate_distribution_distance, "save_dist": DM.save_measurement_outcome_distribution,
            "save_dists": DM.save_measurement_outcome_distributions,
            "Wavefunction": WF.Wavefunction, "flip_wavefunction": WF.flip_wavefunction, "flip_amplitudes": WF.flip_amplitudes,
            "sample_from_wavefunction": WF.sample_from_wavefunction, "save_wavefunction": WF.save_wavefunction,
            "save_operator": OP.save_operator, "save_operator_set": OP.save_operator_set,
            "save_circuit": C.save_circuit, "save_circuitset": C.save_circuitset,
        }
        st = {"L": L, "pool": [], "snaps": [], "returned": 0, "alias": False, "WF": WF, "U": U, "derived": set(), "tainted": set()}
        clear_library_caches()
        st["fs"] = SimFS(4096)
        st["seams"] = Seams(st["fs"]).install()
        st["rng"] = SimRNG(cfg.get("rng_mode", "real"), cfg.get("rng_policy", "uniform"), ctx.probes).install()
        st["Sim"] = SymbolicSimulator
        st["sim_seed"] = cfg.get("sim_seed")
        return st

    def cleanup(self, st):
        st["rng"].restore()
        st["seams"].restore()

    # -- pool helpers
    def _add(self, st, t, obj, derived=False, twin=None):
        if len(st["pool"]) >= POOL_CAP:
            return False
        st["pool"].append((t, obj))
        st.setdefault("twins", []).append(twin)
        st["snaps"].append(json.dumps(snap_obj(t, obj), sort_keys=True))
        if derived:
            st["derived"].add(len(st["pool"]) - 1)
        return True

    def _prov_size(self, prov):
        if prov is None:
            return 10 ** 6
        return 1 if prov[0] == "mk" else 1 + sum(self._prov_size(p_) for p_ in prov[2])

    def _fresh(self, st, prov):
        """Rebuild an object from its provenance: the constructor spec it came from, or the operation (with the
        same arguments, rebuilt the same way, and the same random seed) that returned it."""
        if prov[0] == "mk":
            return self._build(st, prov[1])
        _, name, aprovs, k, rs = prov
        args = [self._fresh(st, p_) for p_ in aprovs]
        st["rng"].begin_step(rs)
        st["sim_obj"] = st["Sim"](seed=st["sim_seed"])
        env = self._env(None, st, None)
        return OPS[name][1](st["L"], args, k, env)

    def _snap_all(self, st):
        return [json.dumps(snap_obj(t, o), sort_keys=True) for t, o in st["pool"]]

    def resync(self, ctx, st, step):
        try:
            st["snaps"] = self._snap_all(st)
        except Exception:  # noqa: BLE001
            pass

    def _build(self, st, a):
        L = st["L"]
        t = a["t"]
        if t == "C":
            return gen.build_circuit(a["spec"])
        if t == "G":
            return gen.build_gate(a["spec"])
        if t == "P":
            return gen.build_pauli(a["spec"])
        if t == "M":
            return L["Measurements"]([tuple(np.int8(b) for b in bs) if a.get("np") else tuple(bs) for bs in a["spec"]])
        if t == "BL":
            return [tuple(bs) for bs in a["spec"]]
        if t == "D":
            src = {(tuple(k) if a["style"] == "tuple" else "".join(map(str, k))): w for k, w in a["spec"]}
            return L["MOD"](src, normalize=False) if a.get("raw") else L["MOD"](src)
        if t == "CD2":
            return {(tuple(k) if a["style"] == "tuple" else "".join(map(str, k))): w for k, w in a["spec"]}
        if t in ("W", "V"):
            r = random.Random(a["seed"])
            dim = 2 ** a["n"]
            if a.get("kind") == "basis":
                v = [0j] * dim
                v[r.randrange(dim)] = 1 + 0j
            else:
                v = [complex(r.gauss(0, 1), r.gauss(0, 1)) for _ in range(dim)]
                nrm = sum(abs(x) ** 2 for x in v) ** 0.5
                v = [x / nrm for x in v]
            if t == "V":
                return list(v) if a.get("as_list") else np.array(v, dtype=complex)
            if a.get("kind") == "sym":
                sa = sympy.Symbol("a")
                v = [0.5, sympy.cos(sa) * sympy.Rational(1, 2)] + [0] * (dim - 2)
            return L["Wavefunction"](v)
        if t == "PD":
            d = {}
            if a["sigma"] is not None:
                d["sigma"] = np.array(a["sigma"]["np"], dtype=float) if isinstance(a["sigma"], dict) else a["sigma"]
            if a["epsilon"] is not None:
                d["epsilon"] = a["epsilon"]
            return d
        if t == "SM":
            return {sympy.Symbol(k): v for k, v in a["spec"].items()}
        if t == "CD":
            return dict(a["spec"])
        if t == "CL":
            return [gen.build_circuit(c) for c in a["spec"]]
        if t == "TL":
            return list(gen.build_pauli(a["spec"]).terms)
        if t == "OL":
            return list(gen.build_circuit(a["spec"]).operations)
        if t == "DD":
            return json.loads(json.dumps(L["to_dict"](gen.build_circuit(a["spec"]))))
        if t == "OD":
            return json.loads(json.dumps(L["convert_op_to_dict"](gen.build_pauli(a["spec"]))))
        raise ValueError(t)

    def step(self, ctx, st, step):
        with warnings.catch_warnings():
            warnings.simplefilter("ignore")
            if step.get("clear"):
                clear_library_caches()
            if step["op"] == "mutate":
                self._do_mutate(ctx, st, step, step["args"])
                return
            if step["op"] == "mk":
                ok, obj = call(self._build, st, step["args"])
                if ok and self._add(st, step["args"]["t"], obj, twin=("mk", step["args"])):
                    ctx.log("mk", "ok", _sig=step["args"]["t"])
                else:
                    ctx.log("mk", "skip", _sig=step["args"]["t"])
                return
            self._do_call(ctx, st, step, step["args"])

    def _env(self, ctx, st, step):

        def qubits(d, k):
            n = d.get_number_of_subsystems()
            r = random.Random(k[0])
            return r.sample(range(n), 1 + k[1] % n)

        def params(name, k):
            if name == "sigma":
                return {"sigma": [1.0, 0.1, 7.5, [0.25, 10.0]][k[0] % 4]}
            return {} if k[0] % 3 == 0 else {"epsilon": [1e-9, 1e-6][k[0] % 2]}

        return {
            "sim": lambda: st["sim_obj"],
            "qubits": qubits, "params": params,
            "path": lambda k: ["/d/out.json", b"/d/outb.json", SimPath("/d/outp.json")][k[2] % 3],
        }

    def _do_call(self, ctx, st, step, a):
        L = st["L"]
        name = a["name"]
        types, fn = OPS[name]
        args, idxs = [], []
        for i, t in enumerate(types):
            cands = [j for j, (tt, _) in enumerate(st["pool"]) if tt == t]
            if not cands:
                ctx.log("call", "noop", _sig=name)
                return
            j = cands[a["refs"][i] % len(cands)]
            idxs.append(j)
            args.append(st["pool"][j][1])
        env = self._env(ctx, st, step)
        results = []
        errs = []
        before = st["snaps"]
        fired_total = []
        for rep in range(2):
            st["rng"].begin_step(step["rs"])
            st["sim_obj"] = st["Sim"](seed=st["sim_seed"])
            st["fs"].begin_call(step.get("fault"))
            try:
                try:
                    with time_limit(45):
                        ok, res = call(fn, L, args, a["k"], env)
                except WallLimit:
                    ok, res = False, WallLimit("library call exceeded the 45 s safety net")
            finally:
                fired = st["fs"].end_call()
            fired_total += fired
            ctx.called(name)
            if not ok:
                errs.append(res)
                break
            results.append(res)
            if rep == 0:
                with judge(ctx, "malformed-object"):
                    after = self._snap_all(st)
                if after != before:
                    bad = [i for i, (x, y) in enumerate(zip(before, after)) if x != y]
                    i = bad[0]
                    role = f"argument {idxs.index(i)}" if i in idxs else "a pool object that was not even an argument (alias)"
                    st["snaps"] = after
                    ctx.fail("mutated-argument", name,
                             f"{name}({', '.join(st['pool'][j][0] + '#' + str(j) for j in idxs)}) changed {role}: pool[{i}] ({st['pool'][i][0]}) "
                             f"{before[i][:300]} -> {after[i][:300]}")
        for f in fired_total:
            ctx.fault(f[0])
            ctx.probe("save-fault")
        if errs:
            ctx.probe("call-raised")
            # not judged (the property speaks of operations that return); keep the model in step with reality
            now = self._snap_all(st)
            if now != st["snaps"]:
                ctx.probe("raise-changed-pool")
                st["snaps"] = now
            ctx.log("call", "raised", _sig=f"{name}:{type(errs[0]).__name__}")
            return
        ctx.probe(f"op:{name}")
        st["returned"] += 1
        if any(i in st["derived"] for i in idxs):
            ctx.probe("alias-chain")
            st["alias"] = True
        if st["returned"] >= 5 and st["alias"]:
            ctx.nontrivial = True
        with judge(ctx, "malformed-result"):
            c1 = json.dumps(canon_any(results[0], L), sort_keys=True)
            c2 = json.dumps(canon_any(results[1], L), sort_keys=True)
            after2 = self._snap_all(st)
        if c1 != c2:
            ctx.fail("not-repeatable", name, f"{name} on the same arguments returned {c1[:400]} and then {c2[:400]}")
        # history independence: the same operation on PRISTINE TWINS of the arguments - objects with the same value that
        # have never been through a library call (deep copies of second builds / of earlier twin results) - must give
        # the same answer.  What an object has been asked before is not part of its value.
        twin_res = None
        twins = st.get("twins", [])
        provs = [twins[j] if j < len(twins) else None for j in idxs]
        if (name not in SAVE_OPS and all(p_ is not None for p_ in provs)
                and sum(self._prov_size(p_) for p_ in provs) <= 10):
            ok_c, targs = call(lambda: [self._fresh(st, p_) for p_ in provs])
            if ok_c:
                st["rng"].begin_step(step["rs"])
                st["sim_obj"] = st["Sim"](seed=st["sim_seed"])
                st["fs"].begin_call(None)
                try:
                    try:
                        with time_limit(45):
                            ok_t, res_t = call(fn, L, targs, a["k"], env)
                    except WallLimit:
                        ok_t, res_t = False, None
                finally:
                    st["fs"].end_call()
                if ok_t:
                    with judge(ctx, "malformed-result"):
                        c_t = json.dumps(canon_any(res_t, L), sort_keys=True)
                    ctx.probe("twin-compared")
                    if c_t != c1:
                        ctx.fail("history-dependent", name,
                                 f"{name} on objects that had been used before returned {c1[:300]}, on objects of the same value rebuilt "
                                 f"from scratch (same constructors, same operations, never used otherwise) {c_t[:300]}")
                    twin_res = ("call", name, provs, list(a["k"]), step["rs"])
        if after2 != before:
            bad = [i for i, (x, y) in enumerate(zip(before, after2)) if x != y]
            st["snaps"] = after2
            ctx.fail("mutated-argument", name, f"second call of {name} changed pool[{bad[0]}]: {before[bad[0]][:300]} -> {after2[bad[0]][:300]}")
        # containers handed to constructors that keep them by documented design are never mutated by the client
        for nm, ty in (("m_new", "BL"), ("w_new", "V"), ("p_sum_from_terms", "TL")):
            if name == nm:
                st["tainted"].add(idxs[0])
        if name == "sim_wf_init" and not args[0].operations:
            st["tainted"].add(idxs[1])
        c1_before_edit = c1
        if self._probe_result_alias(ctx, st, name, results, before) and name not in SAVE_OPS:
            # the client has edited what the second call gave it; the operation, asked once more with the same
            # arguments, must still give what it gave the first time (no result is handed out twice / kept in a cache
            # that callers can write to)
            st["rng"].begin_step(step["rs"])
            st["sim_obj"] = st["Sim"](seed=st["sim_seed"])
            st["fs"].begin_call(None)
            try:
                try:
                    with time_limit(45):
                        ok3, r3 = call(fn, L, args, a["k"], env)
                except WallLimit:
                    ok3, r3 = False, None
            finally:
                st["fs"].end_call()
            if ok3:
                with judge(ctx, "malformed-result"):
                    c3 = json.dumps(canon_any(r3, L), sort_keys=True)
                ctx.probe("third-call-after-result-edit")
                if c3 != c1_before_edit:
                    ctx.fail("not-repeatable", f"{name}:after-result-edit",
                             f"after the client edited the result of an earlier call, {name} on the same (unchanged) arguments returned "
                             f"{c3[:300]} instead of {c1_before_edit[:300]}")
        res = results[0]
        t = classify(res, L)
        if name == "w_bind" and res is args[0]:
            ctx.probe("bind-returned-self")
        if name == "p_sum_from_terms":
            ctx.probe("shared-term-objects")
        if name == "m_new":
            ctx.probe("shared-bitstring-list")
        if t is not None:
            self._add(st, t, res, derived=True, twin=twin_res)
        elif name in ("c_to_dict",) and isinstance(res, dict):
            self._add(st, "DD", res, derived=True, twin=twin_res)
        elif name == "p_to_dict" and isinstance(res, dict):
            self._add(st, "OD", res, derived=True, twin=twin_res)
        elif name == "m_counts" and isinstance(res, dict) and res:
            self._add(st, "CD", res, derived=True, twin=twin_res)
        elif name == "p_terms" and isinstance(res, list):
            self._add(st, "TL", res, derived=True, twin=twin_res)
        elif name == "w_sample" and isinstance(res, list):
            self._add(st, "BL", res, derived=True, twin=twin_res)
        elif name in ("w_amplitudes", "w_flip_amplitudes", "w_apply_op") and isinstance(res, np.ndarray) and res.ndim == 1:
            self._add(st, "V", res, derived=True, twin=twin_res)
        elif name == "p_circuits" and isinstance(res, list):
            if self._add(st, "CL", res, derived=True, twin=twin_res):
                st["tainted"].add(len(st["pool"]) - 1)   # the library's own cached list
        ctx.log("call", "ok", _sig=name)

    # -- aliasing probes ------------------------------------------------------------------------------------
    # operations whose result shares objects with an argument in the UNCHANGED library (surveyed with `is` over
    # results, term lists, term objects): constructors keeping the caller's container, bind/dagger returning the
    # receiver, cached lists, simplify keeping lone terms, `term + number` wrapping the very term object
    ALIAS_BY_DESIGN = {"m_new", "w_new", "p_sum_from_terms", "w_bind", "p_circuits", "p_terms", "c_ops_nq", "c_split",
                       "cl_sum", "p_copy", "g_dagger", "g_bind", "c_bind", "p_simplify", "p_num_r", "p_num_l",
                       "p_add", "p_sub", "p_add_self", "p_iadd", "p_isub", "p_iadd_num"}  # term + term builds PauliSum([self, other]) around the very objects

    def _probe_result_alias(self, ctx, st, name, results, before):
        """The client edits the (second, otherwise discarded) result through its public interface; no object that
        existed before the call may change: a value does not share mutable state with the values it was computed from."""
        if name in self.ALIAS_BY_DESIGN or (name == "sim_wf_init"):
            return False
        r1, r2 = results
        L = st["L"]
        # (a result that IS one of the pool objects, or the same object on both calls, is not skipped: for the
        # operations probed here the unchanged library always builds a new object, so that is the very aliasing
        # the probe looks for - editing it shows up in the snapshot of the object it is shared with)
        done = False
        try:
            if isinstance(r2, L["PauliSum"]):
                # PauliSum arithmetic copies terms (anchor): the result's terms are the client's to edit
                if len(r2.terms):
                    r2.terms[0].coefficient = r2.terms[0].coefficient * 2 + 1
                if isinstance(r2.terms, list):
                    r2.terms.append(L["PauliTerm"]("X0"))
                done = True
            elif isinstance(r2, L["PauliTerm"]):
                r2.coefficient = r2.coefficient * 2 + 1
                done = True
            elif isinstance(r2, sympy.MutableDenseMatrix) and r2.shape[0] >= 1:
                r2[0, 0] = r2[0, 0] + 1
                done = True
            elif isinstance(r2, L["Wavefunction"]) and not r2.free_symbols and len(r2) >= 1:
                flat = [complex(x) for x in np.asarray(r2.amplitudes).reshape(-1)]
                i0 = next((i for i, x in enumerate(flat) if x != 0), 0)
                r2[i0] = -1 * flat[i0]   # a norm-preserving assignment through the public interface
                done = True
            elif isinstance(r2, L["Measurements"]) and isinstance(r2.bitstrings, list) and r2.bitstrings:
                r2.add_counts({"".join("1" for _ in r2.bitstrings[0]): 1})
                done = True
            elif isinstance(r2, L["MOD"]):
                k0 = next(iter(r2.distribution_dict))
                r2.distribution_dict[k0] = r2.distribution_dict[k0] * 0.5 + 0.125
                done = True
            elif isinstance(r2, np.ndarray) and r2.size and r2.flags.writeable and r2.dtype.kind in "fc":
                r2.flat[0] = r2.flat[0] + 1
                done = True
            elif isinstance(r2, list):
                r2.append(None)
                done = True
            elif isinstance(r2, set):
                r2.add(("client", 99)) if r2 and isinstance(next(iter(r2)), tuple) else r2.add(99)
                done = True
            elif isinstance(r2, dict):
                r2["__client_key__"] = 1
                done = True
            elif hasattr(r2, "nnz") and hasattr(r2, "data") and getattr(r2, "nnz", 0):
                r2.data[0] = r2.data[0] * 2 + 1   # scipy sparse matrix handed to the client
                done = True
        except Exception:  # noqa: BLE001 - the edit itself is the client's business; only its side effects matter
            done = True
        if not done:
            return False
        ctx.probe("result-edited")
        with judge(ctx, "malformed-object"):
            now = self._snap_all(st)
        if now != before:
            bad = [i for i, (x, y) in enumerate(zip(before, now)) if x != y]
            st["snaps"] = now
            ctx.fail("mutated-argument", f"{name}:result-shares-state",
                     f"editing the result of {name} changed pool[{bad[0]}] ({st['pool'][bad[0]][0]}): the result shares mutable state "
                     f"with an object that existed before the call: {before[bad[0]][:250]} -> {now[bad[0]][:250]}")
        return True

    MUTABLE = ("OL", "CD2", "SM", "PD", "CD", "DD", "OD", "CL", "V", "BL", "TL")

    def _do_mutate(self, ctx, st, step, a):
        """The client edits one of ITS OWN plain containers after having passed it to library calls.  No library
        object may change (Circuit copies its operation list, the distribution constructor re-keys its input, ...)."""
        cands = [j for j, (t, _) in enumerate(st["pool"]) if t in self.MUTABLE and j not in st["tainted"]]
        if not cands:
            ctx.log("mutate", "noop")
            return
        j = cands[a["ref"] % len(cands)]
        t, o = st["pool"][j]
        k = a["k"]
        before = st["snaps"]
        L = st["L"]
        try:
            if t == "OL":
                if len(o) > 1 and k % 2:
                    o.pop()
                else:
                    o.append(o[0] if o else None)
                    if o[-1] is None:
                        o.pop()
            elif t in ("CD2",):
                k0 = next(iter(o), None)
                if k0 is not None:
                    o[k0] = o[k0] * 0.5 + 0.125
            elif t == "SM":
                if o and k % 2:
                    k0 = next(iter(o))
                    o[k0] = o[k0] + 1.0
                else:
                    o[sympy.Symbol("client_added")] = 0.25
            elif t == "PD":
                if isinstance(o.get("sigma"), np.ndarray):
                    o["sigma"][0] *= 2.0
                else:
                    o["epsilon"] = 1e-5
            elif t == "CD":
                k0 = next(iter(o), None)
                if k0 is not None:
                    o[k0] = o[k0] + 1
            elif t == "DD":
                if o.get("operations") and k % 2:
                    o["operations"].pop()
                else:
                    o["n_qubits"] = o.get("n_qubits", 0) + 1
            elif t == "OD":
                if o.get("terms"):
                    o["terms"][0]["coefficient"]["real"] = o["terms"][0]["coefficient"].get("real", 0) + 1
                else:
                    o["terms"] = []
            elif t == "CL":
                if o:
                    o.append(o[0])
            elif t == "V":
                o[0] = -1 * o[0]
            elif t == "BL":
                o.append(tuple(0 for _ in (o[0] if o else (0,))))
            elif t == "TL":
                o.reverse()
        except Exception:  # noqa: BLE001
            ctx.log("mutate", "skip", _sig=t)
            return
        ctx.probe("client-mutation")
        if j < len(st.get("twins", [])):
            st["twins"][j] = None   # an edited container has no recipe any more: no rebuilt twin for it
        with judge(ctx, "malformed-object"):
            now = self._snap_all(st)
        others = [i for i, (x, y) in enumerate(zip(before, now)) if x != y and i != j]
        st["snaps"] = now
        if others:
            i = others[0]
            ctx.fail("mutated-argument", f"alias:{t}->{st['pool'][i][0]}",
                     f"the client edited its own {t} container (pool[{j}]) and pool[{i}] ({st['pool'][i][0]}) changed with it: "
                     f"{before[i][:250]} -> {now[i][:250]}")
        ctx.log("mutate", "ok", _sig=t)

    # ------------------------------------------------------------ shrinking
    def shrink_step(self, s):
        if s["op"] == "call":
            a = s["args"]
            if any(a["refs"]):
                yield {**s, "args": {**a, "refs": [0, 0, 0]}}
            if any(a["k"]):
                yield {**s, "args": {**a, "k": [0, 0, 0]}}
            if "fault" in s:
                yield {k: v for k, v in s.items() if k != "fault"}
        if s.get("clear"):
            yield {**s, "clear": False}


WORLD = World()
