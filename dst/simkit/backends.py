"""Fake back-ends: stub peers built on the *real* base classes."""
import random


class BackendFault(Exception):
    """Scheduled failure of the simulated third-party back-end."""


def make_classes():
    import numpy as np
    from orquestra.quantum.api.circuit_runner import BaseCircuitRunner
    from orquestra.quantum.api.wavefunction_simulator import BaseWavefunctionSimulator
    from orquestra.quantum.circuits import GateOperation
    from orquestra.quantum.measurements import Measurements

    from . import refmodel

    class ShotBackend(BaseCircuitRunner):
        """_run_and_measure samples the reference model's exact distribution with its own seeded
        PRNG and returns n + extra shots; validation, counters and batch fan-out are the real
        BaseCircuitRunner code."""

        def __init__(self, extra=0, name="shot"):
            super().__init__()
            self.extra = extra
            self.sim_name = name
            self.calls = []  # (circuit, n) as seen by the peer
            self.fail_at = None  # fail on the k-th peer invocation counted from arm time
            self.rs = 0
            self.np_bits = False  # deliver bits as numpy integers (legal: Measurements stores what it is given)

        def arm(self, rs, fail_at=None):
            self.rs = rs
            self.fail_at = None if fail_at is None else len(self.calls) + fail_at

        def _run_and_measure(self, circuit, n_samples):
            k = len(self.calls)
            self.calls.append((circuit, n_samples))
            if self.fail_at is not None and k == self.fail_at:
                self.fail_at = None
                raise BackendFault(f"simulated back-end failure on invocation {k}")
            n = circuit.n_qubits
            state = refmodel.run_circuit(circuit.operations, n)
            p = np.abs(state) ** 2
            r = random.Random(self.rs * 31 + k)
            idx = r.choices(range(len(p)), weights=[float(x) if x > 1e-14 else 0.0 for x in p], k=n_samples + self.extra)
            if self.np_bits:
                return Measurements([tuple(np.int8(b) for b in refmodel.bits_of(i, n)) for i in idx])
            return Measurements([refmodel.bits_of(i, n) for i in idx])

    class SplitSim(BaseWavefunctionSimulator):
        """is_natively_supported is a per-run pure predicate; native segments go to a stub applier
        (reference model) or to operation.apply (real); splitting, state threading, counters and
        sampling are the real BaseWavefunctionSimulator code."""

        def __init__(self, family, arg=None, real_apply=False, seed=None):
            super().__init__(seed=seed)
            self.family, self.arg, self.real_apply = family, arg, real_apply
            self.native_calls = []  # (ops tuple, n_qubits)
            self.fail_at = None
            # a back-end may evolve the buffer it is handed in place (legal: every answer it returns is correct);
            # the harness allows it only when the buffer is the base class's own default state, never the caller's array
            self.inplace = False
            self.inplace_ok = False

        def arm(self, fail_at=None):
            self.fail_at = None if fail_at is None else len(self.native_calls) + fail_at

        def is_natively_supported(self, operation):
            f = self.family
            if f == "all":
                return True
            if f == "none":
                return False
            if f == "gateop":
                return isinstance(operation, GateOperation)
            if not isinstance(operation, GateOperation):
                return f == "nongate"
            if f == "nongate":
                return False
            if f == "arity":
                return len(operation.qubit_indices) <= self.arg
            if f == "names":
                return operation.gate.name in self.arg
            if f == "parity":
                return sum(operation.qubit_indices) % 2 == self.arg
            raise ValueError(f)

        def _get_wavefunction_from_native_circuit(self, circuit, initial_state):
            k = len(self.native_calls)
            self.native_calls.append((tuple(circuit.operations), circuit.n_qubits))
            failing = self.fail_at is not None and k == self.fail_at
            if self.inplace and self.inplace_ok:
                buf = np.asarray(initial_state, dtype=complex)  # the received buffer itself when it is complex already
                ops = list(circuit.operations)
                if failing:
                    self.fail_at = None
                    half = refmodel.run_circuit(ops[: max(1, len(ops) // 2)], circuit.n_qubits, np.array(buf))
                    buf[...] = half  # died part-way: the buffer is left half-evolved
                    raise BackendFault(f"simulated native simulator failure on invocation {k}")
                buf[...] = refmodel.run_circuit(ops, circuit.n_qubits, np.array(buf))
                return buf
            if failing:
                self.fail_at = None
                raise BackendFault(f"simulated native simulator failure on invocation {k}")
            state = initial_state
            if self.real_apply:
                for op in circuit.operations:
                    state = op.apply(state)
                return state
            return refmodel.run_circuit(circuit.operations, circuit.n_qubits, np.asarray(state, dtype=complex))

    class TaggedRunner:
        """Bare CircuitRunner protocol (no base class): returns for circuit i the exact basis
        outcome of circuit i, n + extra times."""

        def __init__(self, extra=0, recycle=False):
            self.extra = extra
            # a back-end may recycle its result objects: the Measurements object it returned for batch position i
            # (same register width, same shot count) is refilled - its public `bitstrings` attribute replaced - and
            # returned again by a later call.  Legal: every object it returns holds exactly the shots of that call.
            self.recycle = recycle
            self._buffers = {}
            self.batch_calls = []
            self.n_jobs_executed = 0
            self.n_circuits_executed = 0
            self.fail_next = False
            self.batch_unsupported = False  # a peer may decline batches altogether and still serve single circuits

        def _measure(self, circuit, n, pos=0):
            state = refmodel.run_circuit(circuit.operations, circuit.n_qubits)
            i = int(np.argmax(np.abs(state)))
            shots = [refmodel.bits_of(i, circuit.n_qubits)] * (n + self.extra)
            if self.recycle:
                key = (pos, circuit.n_qubits, n)
                m = self._buffers.get(key)
                if m is not None:
                    m.bitstrings = shots
                    self.recycled = getattr(self, "recycled", 0) + 1
                    return m
                m = self._buffers[key] = Measurements(shots)
                return m
            return Measurements(shots)

        def run_and_measure(self, circuit, n_samples):
            if n_samples <= 0:
                raise ValueError("n_samples must be positive")
            self.n_jobs_executed += 1
            self.n_circuits_executed += 1
            return self._measure(circuit, n_samples)

        def run_batch_and_measure(self, circuits_batch, n_samples):
            ns = [n_samples] * len(circuits_batch) if isinstance(n_samples, int) else list(n_samples)
            if len(ns) != len(circuits_batch) or any(n <= 0 for n in ns):
                raise ValueError("bad n_samples")
            self.batch_calls.append((list(circuits_batch), ns))
            if self.batch_unsupported:
                raise NotImplementedError("this back-end runs one circuit per job")
            if self.fail_next:
                self.fail_next = False
                raise BackendFault("simulated batch failure")
            self.n_jobs_executed += 1
            self.n_circuits_executed += len(circuits_batch)
            return [self._measure(c, n, pos) for pos, (c, n) in enumerate(zip(circuits_batch, ns))]

        def get_measurement_outcome_distribution(self, circuit, n_samples):
            return self.run_and_measure(circuit, n_samples).get_distribution()

    return ShotBackend, SplitSim, TaggedRunner


_cls = None


def classes():
    global _cls
    if _cls is None:
        _cls = make_classes()
    return _cls
