"""Plan minimisation: ddmin over steps, fault removal, argument shrinking.

A candidate is accepted only if it still fails with the same violation class and is
not absorbed by a known finding (known keys are passed to execute, so a known hit
is not a violation). Bounded by executions and wall time.
"""
import copy
import time

from .core import execute_isolated as execute


class Budget:
    def __init__(self, max_exec=400, max_s=90.0):
        self.max_exec, self.deadline, self.n = max_exec, time.time() + max_s, 0

    def ok(self):
        return self.n < self.max_exec and time.time() < self.deadline


def _fails(world, plan, key, known_keys, budget):
    if not budget.ok():
        return None
    budget.n += 1
    r = execute(world, plan, known_keys)
    if r.harness_error is None and r.violation and r.violation["key"] == key:
        return r
    return None


def _with_steps(plan, steps):
    p = dict(plan)
    p["steps"] = steps
    return p


def minimise(world, plan, violation, known_keys=(), max_exec=400, max_s=90.0):
    cls = violation["key"]
    budget = Budget(max_exec, max_s)
    best = copy.deepcopy(plan)
    best_v = violation
    # 0. drop everything after the failing step
    cut = violation.get("step")
    if isinstance(cut, int) and cut + 1 < len(best["steps"]):
        cand = _with_steps(best, best["steps"][: cut + 1])
        r = _fails(world, cand, cls, known_keys, budget)
        if r:
            best, best_v = cand, r.violation
    # 1. ddmin over steps
    n = 2
    steps = best["steps"]
    while len(steps) >= 2 and budget.ok():
        chunk = max(1, len(steps) // n)
        reduced = False
        for start in range(0, len(steps), chunk):
            cand_steps = steps[:start] + steps[start + chunk:]
            if not cand_steps:
                continue
            cand = _with_steps(best, cand_steps)
            r = _fails(world, cand, cls, known_keys, budget)
            if r:
                best, best_v, steps = cand, r.violation, cand_steps
                n = max(n - 1, 2)
                reduced = True
                break
        if not reduced:
            if chunk == 1:
                break
            n = min(len(steps), n * 2)
    # 2. fault removal
    for i, s in enumerate(list(best["steps"])):
        if "fault" in s and budget.ok():
            cand_steps = copy.deepcopy(best["steps"])
            del cand_steps[i]["fault"]
            cand = _with_steps(best, cand_steps)
            r = _fails(world, cand, cls, known_keys, budget)
            if r:
                best, best_v = cand, r.violation
    # 3. argument shrinking (world-specific)
    shrink = getattr(world, "shrink_step", None)
    if shrink is not None:
        progress = True
        while progress and budget.ok():
            progress = False
            for i in range(len(best["steps"])):
                try:  # a shrinker that does not know a step kind must not cost the report: that step stays as it is
                    alts = list(shrink(copy.deepcopy(best["steps"][i])))
                except Exception:  # noqa: BLE001
                    alts = []
                for alt in alts:
                    if not budget.ok():
                        break
                    cand_steps = list(best["steps"])
                    cand_steps[i] = alt
                    cand = _with_steps(best, cand_steps)
                    r = _fails(world, cand, cls, known_keys, budget)
                    if r:
                        best, best_v = cand, r.violation
                        progress = True
                        break
    return best, best_v, budget.n
