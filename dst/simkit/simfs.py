"""SimFS: in-memory disk injected as the module-global ``open`` of the repo's I/O
modules. Numbered I/O events, scheduled faults, crash semantics (only flushed
bytes survive)."""
import errno
import importlib
import os

from .core import SimCrash

IO_MODULES = [
    "orquestra.quantum.utils",
    "orquestra.quantum.wavefunction",
    "orquestra.quantum.operators._io",
    "orquestra.quantum.circuits.layouts",
    "orquestra.quantum.measurements.measurements",
    "orquestra.quantum.measurements.parities",
    "orquestra.quantum.measurements.expectation_values",
    "orquestra.quantum.distributions._measurement_outcome_distribution",
    "orquestra.quantum.runners.trackers",
]

OPEN_FAULTS = {"eacces": errno.EACCES, "enoent": errno.ENOENT, "emfile": errno.EMFILE}
# transient ones too: an interrupted or would-block write that had already stored part of the data
WRITE_FAULTS = {"enospc": errno.ENOSPC, "eio": errno.EIO, "eintr": errno.EINTR, "eagain": errno.EAGAIN}


def norm_path(p):
    p = os.fspath(p)
    if isinstance(p, bytes):
        p = p.decode()
    return p


class SimPath(os.PathLike):
    def __init__(self, p):
        self.p = p

    def __fspath__(self):
        return self.p

    def __repr__(self):
        return f"SimPath({self.p!r})"


class SimHandle:
    def __init__(self, fs, path, mode):
        self.fs, self.path, self.mode = fs, path, mode
        self.binary = "b" in mode
        self._buf = b""
        self._closed = False
        self._dead = False  # after a crash
        self._readable = "r" in mode or "+" in mode
        self._writable = any(c in mode for c in "wax+")
        self._pos = 0
        self.n_reads = 0
        if "a" in mode:
            self._pos = len(fs.files.get(path, b""))

    # -- context manager
    def __enter__(self):
        return self

    def __exit__(self, *exc):
        self.close()
        return False

    def __del__(self):
        try:
            if not self._closed and not self._dead and self._buf and not self.fs.crashed:
                self.fs.files[self.path] = self._apply(self._buf)
        except Exception:
            pass

    # -- properties
    @property
    def closed(self):
        return self._closed

    @property
    def name(self):
        return self.path

    def writable(self):
        self._chk()
        return self._writable

    def readable(self):
        self._chk()
        return self._readable

    def seekable(self):
        return True

    def fileno(self):
        return 10 ** 6 + id(self) % 10 ** 6  # never a real descriptor; only the stand-in os.fsync sees it

    def _chk(self):
        if self._closed:
            raise ValueError("I/O operation on closed file.")

    def _apply(self, data):
        cur = self.fs.files.get(self.path, b"")
        return cur[: self._wpos()] + data + cur[self._wpos() + len(data):]

    def _wpos(self):
        return self._pos

    # -- writing
    def write(self, s):
        self._chk()
        if not self._writable:
            raise OSError(errno.EBADF, "not writable")
        if self._dead:
            return 0
        data = s if self.binary else s.encode("utf-8")
        self.fs._event(self, "write", len(data))
        prior = len(self._buf)
        self._buf += data
        if len(self._buf) >= self.fs.buffer_size:
            self._flush("flush", cur=(prior, s))
        return len(s)

    def _flush(self, evname, cur=None):
        if self._dead or not self._buf:
            return
        data, self._buf = self._buf, b""
        fault = self.fs._event(self, evname, len(data), data)
        if fault is not None:
            kind, frac = fault
            if kind == "eio_close":
                raise OSError(errno.EIO, "simulated deferred write error")
            if kind == "eintr":
                # a write interrupted before anything was transferred (what EINTR means; Python itself retries it, user code
                # only ever sees it when a signal handler raises): nothing of this flush reaches the file
                # (what earlier write calls had buffered stays buffered; the text of the failing call is not taken)
                self._buf = data if cur is None else data[:cur[0]]
                raise InterruptedError(errno.EINTR, f"simulated eintr: none of {len(data)} bytes written")
            if kind == "eagain":
                # non-blocking descriptor: everything buffered by EARLIER write calls goes through, of the current call's text
                # only the first `cw` characters; the exception says how many (BlockingIOError.characters_written)
                if cur is None:
                    self._commit(data)
                    return
                prior, text = cur
                cw = min(int(len(text) * frac), max(len(text) - 1, 0))
                head = text[:cw] if self.binary else text[:cw].encode("utf-8")
                self._commit(data[:prior] + head)
                raise BlockingIOError(errno.EAGAIN, f"simulated eagain after {cw} of {len(text)} characters", cw)
            j = int(len(data) * frac)
            j = min(max(j, 0), max(len(data) - 1, 0))
            self._commit(data[:j])
            raise OSError(WRITE_FAULTS[kind], f"simulated {kind} after {j} of {len(data)} bytes")
        self._commit(data)

    def _commit(self, data):
        if not data:
            return
        if "a" in self.mode:
            self._pos = len(self.fs.files.get(self.path, b""))
        self.fs.files[self.path] = self._apply(data)
        self._pos += len(data)

    def flush(self):
        self._chk()
        self._flush("flush")

    def close(self):
        if self._closed:
            return
        self._closed = True
        if self._dead or self.fs.crashed:
            self._buf = b""
            return
        try:
            self._flush("close_flush")
        finally:
            self.fs._event(self, "close", 0)
            self.fs.open_handles.discard(self)

    def truncate(self, size=None):
        self._chk()
        self._flush("flush")
        size = self._pos if size is None else size
        self.fs.files[self.path] = self.fs.files.get(self.path, b"")[:size]
        return size

    def seek(self, pos, whence=0):
        self._chk()
        self._flush("flush")
        n = len(self.fs.files.get(self.path, b""))
        self._pos = pos if whence == 0 else (self._pos + pos if whence == 1 else n + pos)
        return self._pos

    def tell(self):
        return self._pos + len(self._buf)

    # -- reading
    def read(self, size=-1):
        self._chk()
        if not self._readable:
            raise OSError(errno.EBADF, "not readable")
        self._flush("flush")
        data = self.fs.files.get(self.path, b"")
        self.n_reads += 1
        if self.binary:
            rest = data[self._pos:]
            if size is None or size < 0:
                out = rest
            else:
                out = rest[:size]
            fault = self.fs._event(self, "read", len(out))
            if fault is not None and size and size > 1 and len(out) > 1:
                out = out[: max(1, int(len(out) * fault[1]))]
            self._pos += len(out)
            return out
        text = data.decode("utf-8")  # may raise UnicodeDecodeError on a torn file (ValueError)
        # _pos counts bytes for writes; for text reads we keep a char cursor separately
        cpos = getattr(self, "_cpos", 0)
        rest = text[cpos:]
        if size is None or size < 0:
            out = rest
            self.fs._event(self, "read", len(out))
        else:
            out = rest[:size]
            fault = self.fs._event(self, "read", len(out))
            if fault is not None and len(out) > 1:
                out = out[: max(1, int(len(out) * fault[1]))]
        self._cpos = cpos + len(out)
        return out

    def readline(self):
        return self.read()

    def __iter__(self):
        return iter(self.read().splitlines(True))


class SimFS:
    def __init__(self, buffer_size=4096):
        self.files = {}
        self.buffer_size = buffer_size
        self.open_handles = set()
        self.crashed = False
        self.event_no = 0
        self.fault = None  # {"kind":..., "at": int, "frac": float}
        self.fired = []  # [(kind, event_no, evname)]
        self.trace = []
        self.in_call = False
        self.n_opens = 0
        self.fds = {}  # fake descriptors handed out by the stand-in os.open

    # -- call windows ----------------------------------------------------
    def begin_call(self, fault=None):
        self.event_no = 0
        self.fault = dict(fault) if fault else None
        self.fired = []
        self.trace = []
        self.in_call = True

    def end_call(self):
        self.in_call = False
        self.fault = None
        return list(self.fired)

    def recover(self):
        """Restart after a crash: python-side buffers are gone, files keep flushed bytes."""
        for h in list(self.open_handles):
            h._dead = True
            h._buf = b""
        self.open_handles.clear()
        self.crashed = False

    # -- events and faults -----------------------------------------------
    def _event(self, handle, evname, nbytes, data=None):
        """Number an I/O event; returns (kind, frac) for data faults the caller applies,
        raises for open faults and crashes."""
        no = self.event_no
        self.event_no += 1
        self.trace.append((no, evname, nbytes))
        f = self.fault
        if not self.in_call or f is None or no < f.get("at", 0):
            return None
        kind = f["kind"]
        applicable = {
            "crash": True,
            "eacces": evname == "open", "enoent": evname == "open", "emfile": evname == "open",
            "enospc": evname in ("flush", "close_flush"), "eio": evname in ("flush", "close_flush"),
            "eintr": evname in ("flush", "close_flush"), "eagain": evname in ("flush", "close_flush"),
            "eio_close": evname == "close_flush",
            "short_read": evname == "read",
        }.get(kind, False)
        if not applicable:
            return None
        self.fault = None
        self.fired.append((kind, no, evname))
        if kind == "crash":
            if data and handle is not None and evname in ("flush", "close_flush"):
                # the process dies while the OS is still writing: a prefix of this flush reaches the file
                handle._commit(data[: int(len(data) * float(f.get("frac", 0.5)))])
            self.crashed = True
            for h in list(self.open_handles):
                h._dead = True
                h._buf = b""
            raise SimCrash(f"crash at event {no} ({evname})")
        if kind in OPEN_FAULTS:
            raise OSError(OPEN_FAULTS[kind], f"simulated {kind}")
        return kind, float(f.get("frac", 0.5))

    # -- the injected open ------------------------------------------------
    def open(self, file, mode="r", buffering=-1, encoding=None, errors=None, newline=None, closefd=True, opener=None):
        path = norm_path(file)
        if not isinstance(mode, str) or not set(mode) <= set("rwxabt+") or sum(c in mode for c in "rwxa") != 1:
            raise ValueError(f"invalid mode: {mode!r}")
        self.n_opens += 1
        self._event(None, "open", 0)
        no_trunc = False
        if opener is not None:
            # builtin open() semantics: the opener decides how the descriptor is obtained.  A descriptor made by
            # the stand-in os.open carries its own flags (it may, for instance, lack O_TRUNC).
            flags = {"r": os.O_RDONLY, "w": os.O_WRONLY | os.O_CREAT | os.O_TRUNC, "a": os.O_WRONLY | os.O_CREAT | os.O_APPEND,
                     "x": os.O_WRONLY | os.O_CREAT | os.O_EXCL}[[c for c in mode if c in "rwax"][0]]
            if "+" in mode:
                flags = (flags & ~(os.O_RDONLY | os.O_WRONLY)) | os.O_RDWR
            fd = opener(file, flags)
            meta = self.fds.pop(fd, None)
            if meta is not None:
                no_trunc = True   # truncation (or not) already happened in the stand-in os.open
        exists = path in self.files
        if "r" in mode and not exists:
            raise FileNotFoundError(errno.ENOENT, "No such file or directory", path)
        if "x" in mode and exists:
            raise FileExistsError(errno.EEXIST, "File exists", path)
        h = SimHandle(self, path, mode)
        if "w" in mode and not no_trunc:
            self._event(h, "truncate", 0)
            self.files[path] = b""
        elif not exists:
            self.files[path] = b""
        self.open_handles.add(h)
        return h

    # -- harness-side helpers (no events) --------------------------------
    def snapshot(self):
        return dict(self.files)


class _SimOSPath:
    """os.path for the I/O modules: existence questions are answered by the simulated disk."""

    def __init__(self, fs, real):
        self._fs, self._real = fs, real

    def __getattr__(self, name):
        return getattr(self._real, name)

    def exists(self, p):
        return norm_path(p) in self._fs.files

    isfile = lexists = exists

    def isdir(self, p):
        q = norm_path(p).rstrip("/") + "/"
        return any(k.startswith(q) for k in self._fs.files)

    def islink(self, p):
        return False

    def realpath(self, p, **kw):
        return norm_path(p)

    def samefile(self, a, b):
        return norm_path(a) == norm_path(b)

    def getsize(self, p):
        return len(self._fs.files[norm_path(p)])


class SimOS:
    """Stand-in for the ``os`` module inside the I/O modules, so that code which checks for, renames,
    replaces or removes files (e.g. write-to-temp-then-os.replace) stays inside the simulated disk.
    Everything else is delegated to the real module."""

    def __init__(self, fs, real):
        self._fs, self._real = fs, real
        self.path = _SimOSPath(fs, real.path)

    def __getattr__(self, name):
        return getattr(self._real, name)

    def replace(self, src, dst, **kw):
        src, dst = norm_path(src), norm_path(dst)
        self._fs._event(None, "rename", 0)
        if src not in self._fs.files:
            raise FileNotFoundError(errno.ENOENT, "No such file or directory", src)
        self._fs.files[dst] = self._fs.files.pop(src)

    rename = replace

    def remove(self, p, **kw):
        p = norm_path(p)
        self._fs._event(None, "unlink", 0)
        if p not in self._fs.files:
            raise FileNotFoundError(errno.ENOENT, "No such file or directory", p)
        del self._fs.files[p]

    unlink = remove

    def fsync(self, fd):
        return None

    def stat(self, p, *a, **kw):
        """A regular file, one hard link, owner-writable - all the simulated disk knows about."""
        import stat as _stat

        if isinstance(p, int):
            meta = self._fs.fds.get(p)
            if meta is None:
                return self._real.stat(p, *a, **kw)
            p = meta[0]
        q = norm_path(p)
        if q not in self._fs.files:
            raise FileNotFoundError(errno.ENOENT, "No such file or directory", q)
        n = len(self._fs.files[q])
        return self._real.stat_result((_stat.S_IFREG | 0o644, 0, 0, 1, 0, 0, n, 0, 0, 0))

    lstat = stat

    def chmod(self, p, mode, *a, **kw):
        if norm_path(p) not in self._fs.files:
            raise FileNotFoundError(errno.ENOENT, "No such file or directory", norm_path(p))

    def access(self, p, mode, *a, **kw):
        q = norm_path(p)
        return q in self._fs.files or self.path.isdir(q) or q.count("/") <= 2

    def makedirs(self, p, *a, **kw):
        return None

    mkdir = makedirs

    def listdir(self, p="."):
        q = norm_path(p).rstrip("/") + "/"
        return sorted({k[len(q):].split("/")[0] for k in self._fs.files if k.startswith(q)})

    def open(self, path, flags, mode=0o777, **kw):
        p = norm_path(path)
        fs, real = self._fs, self._real
        exists = p in fs.files
        if not exists and not flags & real.O_CREAT:
            raise FileNotFoundError(errno.ENOENT, "No such file or directory", p)
        if exists and flags & real.O_CREAT and flags & real.O_EXCL:
            raise FileExistsError(errno.EEXIST, "File exists", p)
        if not exists or flags & real.O_TRUNC:
            fs.files[p] = b""
        fd = 2 * 10 ** 6 + len(fs.fds) + fs.n_opens
        fs.fds[fd] = (p, flags)
        return fd

    def close(self, fd):
        if self._fs.fds.pop(fd, None) is None:
            return self._real.close(fd)

    def fdopen(self, fd, mode="r", *a, **kw):
        meta = self._fs.fds.pop(fd, None)
        if meta is None:
            return self._real.fdopen(fd, mode, *a, **kw)
        path, flags = meta
        self._fs._event(None, "open", 0)
        h = SimHandle(self._fs, path, mode if "a" not in mode or flags & self._real.O_APPEND else mode)
        self._fs.open_handles.add(h)
        return h

    def fspath(self, p):
        return self._real.fspath(p)


class SimShutil:
    """shutil for the library's modules: whole-file operations on the simulated disk."""

    def __init__(self, fs, real):
        self._fs, self._real = fs, real

    def __getattr__(self, name):
        return getattr(self._real, name)

    def copymode(self, src, dst, **kw):
        for p in (src, dst):
            if norm_path(p) not in self._fs.files:
                raise FileNotFoundError(errno.ENOENT, "No such file or directory", norm_path(p))

    copystat = copymode

    def copyfile(self, src, dst, **kw):
        s_, d_ = norm_path(src), norm_path(dst)
        if s_ not in self._fs.files:
            raise FileNotFoundError(errno.ENOENT, "No such file or directory", s_)
        self._fs._event(None, "copy", len(self._fs.files[s_]))
        self._fs.files[d_] = self._fs.files[s_]
        return dst

    copy = copy2 = copyfile

    def move(self, src, dst, **kw):
        s_, d_ = norm_path(src), norm_path(dst)
        if s_ not in self._fs.files:
            raise FileNotFoundError(errno.ENOENT, "No such file or directory", s_)
        self._fs._event(None, "rename", 0)
        self._fs.files[d_] = self._fs.files.pop(s_)
        return dst


class SimTempfile:
    """tempfile for the library's modules: temporary files live on the simulated disk, with deterministic names."""

    def __init__(self, fs, real, sim_os):
        self._fs, self._real, self._os = fs, real, sim_os
        self._n = 0

    def __getattr__(self, name):
        return getattr(self._real, name)

    def _name(self, suffix, prefix, dir):
        self._n += 1
        d = norm_path(dir) if dir else "/simtmp"
        return f"{d.rstrip('/')}/{prefix or 'tmp'}{self._n:04d}{suffix or ''}"

    def mkstemp(self, suffix=None, prefix=None, dir=None, text=False):
        name = self._name(suffix, prefix, dir)
        fd = self._os.open(name, self._os.O_RDWR | self._os.O_CREAT | self._os.O_EXCL, 0o600)
        return fd, name

    def NamedTemporaryFile(self, mode="w+b", buffering=-1, encoding=None, newline=None, suffix=None, prefix=None, dir=None,
                           delete=True, **kw):
        name = self._name(suffix, prefix, dir)
        h = self._fs.open(name, mode if any(c in mode for c in "wax") else "w+")
        if delete:
            fs, real_close = self._fs, h.close

            def close():
                real_close()
                fs.files.pop(name, None)

            h.close = close
        return h

    def gettempdir(self):
        return "/simtmp"


class Seams:
    """Installs/restores the module-global ``open`` (and an ``os`` stand-in where the module imports os)
    on the repo's I/O modules."""

    def __init__(self, fs):
        self.fs = fs
        self.saved = []
        self.saved_os = []

    def install(self):
        import sys

        for name in IO_MODULES:
            importlib.import_module(name)
        # every loaded module of the library gets the stand-ins (not only the nine that do I/O today), so that a
        # refactoring which moves a save function, or adds `import os` for an atomic rename, stays on the simulated disk
        names = sorted(n for n, m in sys.modules.items() if m is not None and n.startswith("orquestra.quantum")
                       and "testing" not in n and hasattr(m, "__dict__"))
        for name in names:
            m = sys.modules[name]
            had = "open" in m.__dict__
            self.saved.append((m, had, m.__dict__.get("open")))
            m.open = self.fs.open
            real_os = m.__dict__.get("os")
            if real_os is not None and not isinstance(real_os, SimOS):
                self.saved_os.append((m, "os", real_os))
                m.os = SimOS(self.fs, real_os)
            import shutil as _real_shutil
            import tempfile as _real_tempfile

            if m.__dict__.get("shutil") is _real_shutil:
                self.saved_os.append((m, "shutil", _real_shutil))
                m.shutil = SimShutil(self.fs, _real_shutil)
            if m.__dict__.get("tempfile") is _real_tempfile:
                self.saved_os.append((m, "tempfile", _real_tempfile))
                import os as _real_os

                m.tempfile = SimTempfile(self.fs, _real_tempfile, SimOS(self.fs, _real_os))
        # pathlib.Path(...).open / read_text / write_text go through Path.open
        import pathlib

        fs = self.fs
        self._path_open = pathlib.Path.open

        def _sim_path_open(self_path, mode="r", buffering=-1, encoding=None, errors=None, newline=None):
            return fs.open(str(self_path), mode, buffering, encoding, errors, newline)

        pathlib.Path.open = _sim_path_open
        return self

    def restore(self):
        for m, had, old in self.saved:
            if had:
                m.open = old
            else:
                try:
                    del m.open
                except AttributeError:
                    pass
        self.saved = []
        for m, attr, real in self.saved_os:
            setattr(m, attr, real)
        self.saved_os = []
        if getattr(self, "_path_open", None) is not None:
            import pathlib

            pathlib.Path.open = self._path_open
            self._path_open = None
