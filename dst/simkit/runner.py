"""Check driver: seeded exploration on a process pool, minimisation, replay files,
known findings, determinism self-test and evidence."""
import argparse
import faulthandler
import hashlib
import importlib
import json
import multiprocessing
import os
import subprocess
import sys
import time
import traceback
from collections import Counter
from concurrent.futures import FIRST_COMPLETED, ProcessPoolExecutor, wait

VERIF = os.path.dirname(os.path.dirname(os.path.dirname(os.path.abspath(__file__))))
SEED_MUL = 1_000_003
RUN_WALL_CAP = 240  # seconds per simulated run before the worker is declared hung


def _setup_repo_path():
    root = os.environ.get("VERIF_REPO_ROOT")
    if root:
        src = os.path.join(root, "src")
        if src not in sys.path:
            sys.path.insert(0, src)


_setup_repo_path()

from .core import FORMAT, ChildDied, classify_hang, run_isolated  # noqa: E402
from .core import execute as execute_inprocess  # noqa: E402
from .core import execute_isolated as execute  # noqa: E402
from .minimise import minimise  # noqa: E402

WORLDS = {
    "C01": "c01", "C04": "c04", "C05": "c05", "C11": "c11", "C12": "c12",
    "C13": "c13", "C14": "c14", "C15": "c15", "C17": "c17", "C20": "c20",
}


WARM_MODULES = [
    "numpy", "sympy", "scipy.sparse", "rapidjson",
    "orquestra.quantum.circuits", "orquestra.quantum.circuits._serde", "orquestra.quantum.circuits.layouts",
    "orquestra.quantum.operators", "orquestra.quantum.measurements", "orquestra.quantum.distributions",
    "orquestra.quantum.wavefunction", "orquestra.quantum.utils", "orquestra.quantum.estimation",
    "orquestra.quantum.api.estimation", "orquestra.quantum.runners.symbolic_simulator", "orquestra.quantum.runners.trackers",
    "dst.simkit.backends", "dst.simkit.refmodel", "dst.simkit.store", "dst.simkit.simrng",
]


def load_world(pid):
    """Import the world and (imports only - no library code is run) everything a run needs, so that the
    forked child of each run starts from a complete process image."""
    for m in WARM_MODULES:
        importlib.import_module(m)
    mod = importlib.import_module(f"dst.worlds.{WORLDS[pid]}")
    return mod.WORLD


def repo_root():
    return os.environ.get("VERIF_REPO_ROOT", "/repo")


def repo_state():
    root = repo_root()
    try:
        head = subprocess.run(["git", "-C", root, "rev-parse", "HEAD"], capture_output=True, text=True, timeout=20).stdout.strip()
        diff = subprocess.run(["git", "-C", root, "diff", "HEAD", "--", "src"], capture_output=True, timeout=20).stdout
        return {"head": head, "dirty_sha1": hashlib.sha1(diff).hexdigest() if diff else None}
    except Exception:
        return {"head": None, "dirty_sha1": None}


# ---------------------------------------------------------------- known findings
def load_known(pid):
    path = os.path.join(VERIF, "known_findings.json")
    if not os.path.exists(path):
        return [], []
    data = json.load(open(path))
    findings = [f for f in data.get("findings", []) if f["property"] == pid]
    fixed = [f for f in data.get("fixed", []) if f["property"] == pid]
    return findings, fixed


def known_patterns(findings, exclude=None):
    """Keys and 'also' patterns of the listed findings (optionally without one finding)."""
    out = []
    for f in findings:
        if exclude is not None and f["key"] == exclude:
            continue
        out.append(f["key"])
        out.extend(f.get("also", []))
    return sorted(set(out))


# ---------------------------------------------------------------- workers
def _run_chunk(pid, tier, base_seed, indices, known_keys, want_digests):
    world = load_world(pid)
    agg = {
        "runs": 0, "steps": 0, "probes": Counter(), "faults": Counter(), "known_hits": Counter(),
        "sigs": set(), "violations": [], "harness_errors": [], "digests": {}, "real_calls": Counter(),
        "samples": [], "pid": os.getpid(), "slowest": [0.0, None],
    }
    def one(seed):
        plan = world.gen_plan(seed, tier)
        r = execute_inprocess(world, plan, known_keys)
        d = r.to_dict()
        d["sample"] = world.sample(plan) if r.nontrivial else None
        return d

    cap = getattr(world, "WATCHDOG_S", RUN_WALL_CAP)
    for i in indices:
        seed = base_seed * SEED_MUL + i
        t_run = time.time()
        try:
            d = run_isolated(lambda: one(seed), cap)
        except ChildDied as e:
            who, where = classify_hang(getattr(e, "hang_traceback", ""))
            if who == "library":
                # the code under test stopped making progress (e.g. a resampling loop that never terminates)
                agg["violations"].append({"seed": seed, "index": i, "hang": True, "violation": {
                    "class": f"{pid}/hang", "key": f"{pid}/hang:{where}", "step": None,
                    "detail": f"the run made no progress for {cap}s inside the library ({where}); stack (innermost first):\n"
                              + getattr(e, "hang_traceback", "")[:1500]}})
            else:
                agg["harness_errors"].append({"seed": seed, "error": str(e)})
            continue
        dt = time.time() - t_run
        if dt > agg["slowest"][0]:
            agg["slowest"] = [round(dt, 2), seed]
        agg["runs"] += 1
        agg["steps"] += d["n_steps"]
        agg["probes"].update(d["probes"])
        agg["faults"].update(d["faults"])
        agg["known_hits"].update(d["known_hits"])
        agg["real_calls"].update(d["real_calls"])
        if d["nontrivial"]:
            agg["sigs"].add(d["signature"])
        if d["harness_error"]:
            agg["harness_errors"].append({"seed": seed, "error": d["harness_error"]})
        if d["violation"]:
            agg["violations"].append({"seed": seed, "index": i, "violation": d["violation"]})
        if i in want_digests:
            agg["digests"][i] = d["digest"]
        if len(agg["samples"]) < 1 and d["sample"] is not None:
            agg["samples"].append(d["sample"])
    agg["probes"] = dict(agg["probes"])
    agg["faults"] = dict(agg["faults"])
    agg["known_hits"] = dict(agg["known_hits"])
    agg["real_calls"] = dict(agg["real_calls"])
    agg["sigs"] = list(agg["sigs"])
    return agg


def _digests_only(pid, tier, base_seed, indices, known_keys):
    world = load_world(pid)
    out = {}
    for i in indices:
        seed = base_seed * SEED_MUL + i
        plan = world.gen_plan(seed, tier)
        out[i] = execute(world, plan, known_keys).digest
    return out


# ---------------------------------------------------------------- replay
def write_replay(pid, seed, plan, violation, digest, minimised_from, n_exec):
    d = os.path.join(VERIF, "replays")
    os.makedirs(d, exist_ok=True)
    tag = hashlib.sha1((violation or {}).get("key", "").encode()).hexdigest()[:6]
    path = os.path.join(d, f"{pid}-{seed}-{tag}.json")
    doc = {
        "format": FORMAT, "property": pid, "seed": seed, "plan": plan, "violation": violation,
        "digest": digest, "minimised_from_steps": minimised_from, "minimise_executions": n_exec,
        "repo": repo_state(),
    }
    with open(path, "w") as f:
        json.dump(doc, f, indent=1, sort_keys=True)
    return path


def do_replay(pid, path):
    doc = json.load(open(path))
    pid = doc["property"] if pid is None else pid
    world = load_world(pid)
    findings, _ = load_known(pid)
    known_keys = known_patterns(findings)
    if doc.get("violation") and any(doc["violation"]["key"] == k for k in known_keys):
        known_keys = []  # replaying a known finding's own reproducer: show it
    r = execute(world, doc["plan"], known_keys, keep_events=True, timeout=RUN_WALL_CAP)
    want_v = doc.get("violation") or {}
    if r.harness_error and want_v.get("class", "").endswith("/hang") and "died without a result" in r.harness_error:
        print(f"replay: the run again makes no progress for {RUN_WALL_CAP}s ({want_v.get('key')})")
        print(f"VIOLATION property={pid} replay={path}")
        return 1
    for e in r.events or []:
        print("  event", e)
    if r.harness_error:
        print("HARNESS-ERROR during replay:\n" + r.harness_error)
        return 2
    want = doc.get("violation")
    if r.violation is None:
        same_tree = doc.get("repo") == repo_state()
        print(f"replay: no violation reproduced (recorded {want and want.get('key')}); same tree: {same_tree}")
        return 2 if (same_tree and want) else 0
    print(f"replay: violation {r.violation['key']} at step {r.violation['step']}: {r.violation['detail'][:400]}")
    if want and (r.violation["class"] != want["class"] or r.digest != doc.get("digest")):
        if doc.get("repo") == repo_state():
            print("replay: DIFFERENT outcome than recorded on the same tree (nondeterminism)")
            return 2
    print(f"VIOLATION property={pid} replay={path}")
    return 1


# ---------------------------------------------------------------- main check
def run_check(pid, tier, base_seed, n_runs=None, budget_s=None, workers=None):
    t0 = time.time()
    world = load_world(pid)
    tiercfg = world.TIERS[tier]
    n_runs = n_runs or int(os.environ.get("VERIF_RUNS", 0)) or tiercfg["runs"]
    budget_s = budget_s or float(os.environ.get("VERIF_BUDGET_S", 0)) or tiercfg["budget_s"]
    workers = workers or int(os.environ.get("VERIF_WORKERS", 0)) or min(16, os.cpu_count() or 1)
    k_det = tiercfg.get("determinism_seeds", 8)
    findings, fixed = load_known(pid)
    known_keys = known_patterns(findings)
    exit_code = 0
    out_violations = []
    print(f"[{pid}] tier={tier} VERIF_SEED={base_seed} runs={n_runs} workers={workers} budget={budget_s}s")

    # 1. known-finding reproducers
    known_seen = []
    for f in findings:
        rp = os.path.join(VERIF, f["reproducer"])
        doc = json.load(open(rp))
        r = execute(world, doc["plan"], known_patterns(findings, exclude=f["key"]))
        if r.harness_error:
            print(f"HARNESS-ERROR replaying known finding {f['key']}:\n{r.harness_error}")
            exit_code = 2
        elif r.violation and r.violation["key"] == f["key"]:
            print(f"KNOWN-FINDING: property={pid} {f['what']} [key {f['key']}]")
            known_seen.append(f["key"])
        elif r.violation:
            out_violations.append({"seed": doc.get("seed", -1), "index": -1, "violation": r.violation, "plan": doc["plan"]})
        else:
            print(f"note: known finding {f['key']} no longer reproduces on this tree")
    # fixed entries suppress nothing, but their reproducers are regression tests
    for f in fixed:
        rp = f.get("reproducer")
        if not rp:
            continue
        doc = json.load(open(os.path.join(VERIF, rp)))
        r = execute(world, doc["plan"], known_keys)
        if r.harness_error:
            print(f"HARNESS-ERROR replaying fixed-finding reproducer {rp}:\n{r.harness_error}")
            exit_code = 2
        elif r.violation:
            out_violations.append({"seed": doc.get("seed", -1), "index": -1, "violation": r.violation, "plan": doc["plan"]})

    # 2. exploration
    det_idx = set(range(min(k_det, n_runs)))
    chunk = max(1, min(tiercfg.get("chunk", 20), (n_runs + workers - 1) // workers))
    chunks = [list(range(s, min(n_runs, s + chunk))) for s in range(0, n_runs, chunk)]
    agg = {"runs": 0, "steps": 0, "probes": Counter(), "faults": Counter(), "known_hits": Counter(),
           "sigs": set(), "violations": [], "harness_errors": [], "digests": {}, "real_calls": Counter(), "samples": [],
           "slowest": [0.0, None]}
    deadline = t0 + budget_s
    ctx = multiprocessing.get_context("fork")
    timed_out = False
    with ProcessPoolExecutor(max_workers=workers, mp_context=ctx) as pool:
        futs = {}
        pending = list(chunks)
        # keep the queue short so the deadline can stop submission
        def submit_some():
            while pending and len(futs) < workers * 2:
                c = pending.pop(0)
                futs[pool.submit(_run_chunk, pid, tier, base_seed, c, known_keys, det_idx)] = c
        submit_some()
        try:
            while futs:
                done, _ = wait(list(futs), timeout=RUN_WALL_CAP * 2, return_when=FIRST_COMPLETED)
                if not done:
                    raise TimeoutError("no worker progress")
                for f in done:
                    futs.pop(f)
                    a = f.result()
                    agg["runs"] += a["runs"]
                    agg["steps"] += a["steps"]
                    for k in ("probes", "faults", "known_hits", "real_calls"):
                        agg[k].update(a[k])
                    agg["sigs"].update(a["sigs"])
                    if a["slowest"][0] > agg["slowest"][0]:
                        agg["slowest"] = a["slowest"]
                    agg["violations"].extend(a["violations"])
                    agg["harness_errors"].extend(a["harness_errors"])
                    for i, d in a["digests"].items():
                        agg["digests"][i] = d
                    if len(agg["samples"]) < 3:
                        agg["samples"].extend(a["samples"])
                if time.time() < deadline:
                    submit_some()
                elif pending:
                    timed_out = True
                    pending.clear()
        except Exception:
            print("HARNESS-ERROR: worker pool failure\n" + traceback.format_exc())
            exit_code = 2

        # 3. determinism self-test (second pass in the pool + fresh interpreter under another hash seed)
        det_result = {"seeds": sorted(det_idx), "second_process": "skipped", "fresh_interpreter_hashseed1": "skipped"}
        if exit_code == 0 and det_idx and all(i in agg["digests"] for i in det_idx):
            try:
                second = pool.submit(_digests_only, pid, tier, base_seed, sorted(det_idx, reverse=True), known_keys).result(timeout=RUN_WALL_CAP * 2)
                bad = [i for i in det_idx if second[i] != agg["digests"][i]]
                det_result["second_process"] = "identical" if not bad else f"MISMATCH {bad}"
                if bad:
                    exit_code = 2
            except Exception:
                det_result["second_process"] = "error"
                print("HARNESS-ERROR: determinism second pass failed\n" + traceback.format_exc())
                exit_code = 2
    if exit_code == 0 and det_idx and all(i in agg["digests"] for i in det_idx):
        env = dict(os.environ, PYTHONHASHSEED="1", PYTHONDONTWRITEBYTECODE="1", VERIF_REEXEC="1")
        try:
            p = subprocess.run(
                [sys.executable, os.path.join(VERIF, "check"), pid, "--tier", tier, "--seed", str(base_seed),
                 "--digests", ",".join(map(str, sorted(det_idx)))],
                capture_output=True, text=True, env=env, timeout=RUN_WALL_CAP * 3, cwd=VERIF)
            fresh = json.loads(p.stdout.strip().splitlines()[-1])
            bad = [i for i in det_idx if fresh.get(str(i)) != agg["digests"][i]]
            det_result["fresh_interpreter_hashseed1"] = "identical" if not bad else f"MISMATCH {bad}"
            if bad:
                exit_code = 2
        except Exception:
            det_result["fresh_interpreter_hashseed1"] = "error"
            print("HARNESS-ERROR: fresh-interpreter determinism pass failed\n" + traceback.format_exc())
            exit_code = 2
    if "MISMATCH" in json.dumps(det_result):
        print(f"NONDETERMINISM detected: {det_result}")

    if agg["harness_errors"]:
        exit_code = 2
        for he in agg["harness_errors"][:3]:
            print(f"HARNESS-ERROR seed={he['seed']}\n{he['error']}")
    had_nondeterminism = "MISMATCH" in json.dumps(det_result)

    # 4. violations -> minimise, replay file, VIOLATION line
    viols = out_violations + sorted(agg["violations"], key=lambda v: v["index"])
    reported = {}
    for v in viols:
        key = v["violation"]["key"]
        if key in reported or len(reported) >= 3:
            continue
        plan = v.get("plan") or world.gen_plan(v["seed"], tier)
        if v.get("hang"):
            # every re-execution would cost a watchdog period: the replay file keeps the unminimised plan
            path = write_replay(pid, v["seed"], plan, v["violation"], None, len(plan["steps"]), 0)
            reported[key] = path
            print(f"violation seed={v['seed']} key={key} detail={v['violation']['detail'][:300]}")
            print(f"VIOLATION property={pid} replay={path}")
            continue
        try:
            mplan, mviol, n_exec = minimise(world, plan, v["violation"], known_keys)
            r = execute(world, mplan, known_keys)
            if not r.violation:
                mplan, mviol, r = plan, v["violation"], execute(world, plan, known_keys)
            path = write_replay(pid, v["seed"], mplan, r.violation or mviol, r.digest, len(plan["steps"]), n_exec)
        except Exception:
            print("HARNESS-ERROR while minimising\n" + traceback.format_exc())
            path = write_replay(pid, v["seed"], plan, v["violation"], None, len(plan["steps"]), 0)
            mviol = v["violation"]
        reported[key] = path
        print(f"violation seed={v['seed']} key={key} step={mviol.get('step')} detail={mviol.get('detail', '')[:300]}")
        print(f"VIOLATION property={pid} replay={path}")
    if reported:
        # a violation that was found, minimised and written as a replay file is the verdict; harness errors seen in
        # the same batch (e.g. other runs of a mutant that hang, or digests that differ because the changed code
        # keeps process-global state) are printed above but do not turn the verdict into "harness error"
        exit_code = 1

    # 5. evidence
    wall = time.time() - t0
    probes_zero = [p for p in world.PROBES_EXPECTED if agg["probes"].get(p, 0) == 0]
    for p in probes_zero:
        print(f"WARN probe never hit: {p}")
    evidence = {
        "property_id": pid, "tier": tier, "seed": base_seed, "level": "exploration",
        "coverage": {
            "evaluations": agg["runs"],
            "distinct_nontrivial": len(agg["sigs"]),
            "rule": world.RULE,
            "samples": agg["samples"][:3],
            "steps_executed": agg["steps"],
            "run_seeds": f"{base_seed}*{SEED_MUL}+[0,{n_runs})",
            "runs_requested": n_runs,
            "stopped_by_deadline": timed_out,
            "runs_per_hour": int(agg["runs"] / max(wall, 1e-9) * 3600),
            "slowest_run": {"wall_s": agg["slowest"][0], "seed": agg["slowest"][1], "watchdog_s": RUN_WALL_CAP},
            "isolation": "every simulated run executes in its own forked child of a warmed-up worker process",
            "simulated_time": "none (no clock seam exists in the code under test; progress is counted in logical steps)",
            "faults_fired": dict(sorted(agg["faults"].items())),
            "probes": dict(sorted(agg["probes"].items())),
            "probes_zero": probes_zero,
            "known_findings_seen": dict(sorted(agg["known_hits"].items())),
            "known_finding_reproducers_still_failing": known_seen,
            "real_entry_points_called": dict(sorted(agg["real_calls"].items())),
            "components": world.COMPONENTS,
            "determinism_selftest": det_result,
            "workers": workers,
            "repo": repo_state(),
            "violation_keys": sorted(reported),
        },
        "assumptions": world.ASSUMPTIONS,
        "wall_s": round(wall, 2),
        "violations": len(reported),
    }
    os.makedirs(os.path.join(VERIF, "evidence"), exist_ok=True)
    # a run against a scratch copy (mutant) must never overwrite the evidence of the real tree
    ev_name = f"{pid}.json" if not os.environ.get("VERIF_REPO_ROOT") else f"{pid}.scratch.json"
    with open(os.path.join(VERIF, "evidence", ev_name), "w") as f:
        json.dump(evidence, f, indent=1, sort_keys=True)
    print(f"[{pid}] runs={agg['runs']} steps={agg['steps']} distinct_nontrivial={len(agg['sigs'])} "
          f"faults={sum(agg['faults'].values())} known_hits={sum(agg['known_hits'].values())} "
          f"violations={len(reported)} violating_runs={len(viols)} determinism={det_result['second_process']}/{det_result['fresh_interpreter_hashseed1']} "
          f"slowest_run={agg['slowest'][0]}s(seed {agg['slowest'][1]}) wall={wall:.1f}s exit={exit_code}")
    return exit_code


def main(argv=None):
    ap = argparse.ArgumentParser()
    ap.add_argument("pid")
    ap.add_argument("--tier", default=os.environ.get("VERIF_TIER", "quick"), choices=["quick", "thorough"])
    ap.add_argument("--seed", type=int, default=int(os.environ.get("VERIF_SEED", "0") or 0))
    ap.add_argument("--replay")
    ap.add_argument("--runs", type=int)
    ap.add_argument("--budget", type=float)
    ap.add_argument("--workers", type=int)
    ap.add_argument("--digests", help="internal: print digests of the given run indices")
    ap.add_argument("--one", type=int, help="debug: run a single run index verbosely")
    a = ap.parse_args(argv)
    # hash randomisation is neutralised by re-exec (and varied in the self-test)
    if os.environ.get("PYTHONHASHSEED") is None and not os.environ.get("VERIF_REEXEC"):
        env = dict(os.environ, PYTHONHASHSEED="0", PYTHONDONTWRITEBYTECODE="1", VERIF_REEXEC="1",
                   OMP_NUM_THREADS="1", OPENBLAS_NUM_THREADS="1", MKL_NUM_THREADS="1")
        os.execve(sys.executable, [sys.executable, os.path.join(VERIF, "check")] + (argv or sys.argv[1:]), env)
    if a.replay:
        return do_replay(a.pid if a.pid != "-" else None, a.replay)
    if a.digests:
        findings, _ = load_known(a.pid)
        idx = [int(x) for x in a.digests.split(",") if x]
        print(json.dumps({str(k): v for k, v in _digests_only(a.pid, a.tier, a.seed, idx, known_patterns(findings)).items()}))
        return 0
    if a.one is not None:
        world = load_world(a.pid)
        findings, _ = load_known(a.pid)
        plan = world.gen_plan(a.seed * SEED_MUL + a.one, a.tier)
        r = execute(world, plan, known_patterns(findings), keep_events=True)
        print(json.dumps(plan, indent=1)[:6000])
        for e in r.events:
            print(e)
        print(json.dumps({k: v for k, v in vars(r).items() if k != "events"}, indent=1, default=str))
        return 0
    return run_check(a.pid, a.tier, a.seed, a.runs, a.budget, a.workers)
