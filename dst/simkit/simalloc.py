"""SimAlloc: failing allocations as a schedulable fault.

The library reaches numpy through a module-global name (``np``) in each of its modules.  For the duration of a run
that name is rebound, in every loaded module of the library, to a proxy that forwards everything to the real numpy
module except the array-allocating entry points listed in ALLOCATORS; those are counted per library call, and the
k-th one raises MemoryError when the plan says so (``{"kind": "alloc", "at": k}``).  numpy itself, the harness and the
reference models keep the real module, so only allocations requested BY the code under test can fail.

What a MemoryError models: the dense 2^n x 2^n lifting of a gate (np.kron / np.eye / np.zeros) not fitting in
memory.  Legal outcomes of a call hit by it: the error propagates, or the library copes and still returns a correct
answer - never a wrong one - and later calls are unaffected.
"""
import sys
import types

ALLOCATORS = ("zeros", "ones", "empty", "eye", "identity", "kron", "array", "asarray", "outer", "tensordot", "dot",
              "matmul", "einsum", "concatenate", "stack", "zeros_like", "empty_like", "ones_like", "full", "diag")


class _NumpyProxy(types.ModuleType):
    def __init__(self, real, seam, names=ALLOCATORS):
        super().__init__(real.__name__)
        object.__setattr__(self, "_real", real)
        object.__setattr__(self, "_seam", seam)
        object.__setattr__(self, "_wrapped", {})
        object.__setattr__(self, "_names", tuple(names))

    def __getattr__(self, name):
        real = object.__getattribute__(self, "_real")
        val = getattr(real, name)
        if name in object.__getattribute__(self, "_names") and callable(val):
            cache = object.__getattribute__(self, "_wrapped")
            w = cache.get(name)
            if w is None:
                seam = object.__getattribute__(self, "_seam")

                def w(*a, _f=val, _n=name, **kw):
                    seam.event(_n)
                    return _f(*a, **kw)

                w.__name__ = name
                cache[name] = w
            return w
        return val

    def __setattr__(self, name, value):
        setattr(object.__getattribute__(self, "_real"), name, value)

    def __dir__(self):
        return dir(object.__getattribute__(self, "_real"))


class SimAlloc:
    def __init__(self, prefix="orquestra.quantum", extra=()):
        self.prefix = prefix
        self.names = tuple(ALLOCATORS) + tuple(extra)   # extra: further numpy entry points that return fresh arrays
        self._patched = []
        self.armed_at = None
        self.count = 0
        self.fired = []
        self.total_events = 0

    def install(self):
        import numpy as real

        proxy = _NumpyProxy(real, self, self.names)
        for name, mod in list(sys.modules.items()):
            if mod is None or not name.startswith(self.prefix):
                continue
            for attr, val in list(vars(mod).items()):
                if val is real:
                    self._patched.append((mod, attr, val))
                    setattr(mod, attr, proxy)
        return self

    def restore(self):
        for mod, attr, val in self._patched:
            setattr(mod, attr, val)
        self._patched = []

    def begin_call(self, fault=None):
        self.count = 0
        self.fired = []
        self.armed_at = fault["at"] if fault and fault.get("kind") == "alloc" else None

    def end_call(self):
        self.armed_at = None
        return list(self.fired)

    def event(self, name):
        self.total_events += 1
        k = self.count
        self.count += 1
        if self.armed_at is not None and k == self.armed_at:
            self.armed_at = None
            self.fired.append(("alloc", k, name))
            raise MemoryError(f"simulated allocation failure in numpy.{name} (allocation {k} of this call)")
