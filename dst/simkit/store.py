"""Store world helper: save/load steps against SimFS with an ACK/UNKNOWN model.

Kinds are registered by the worlds: each kind gives save(value, target),
load(source), the vias its functions are annotated to accept, and a comparator
``same(ctx, original, loaded)`` which returns None when equal or a string
explaining the difference (never raises for unequal values).
"""
from .core import SimCrash, Viol, judge
from .simfs import Seams, SimFS, SimPath

BUFFER_SIZES = [1, 7, 64, 4096, 1 << 30]
SAVE_FAULTS = ["eacces", "enoent", "emfile", "enospc", "eio", "eio_close", "crash", "eintr", "eagain"]
LOAD_FAULTS = ["eacces", "emfile", "short_read", "crash"]


class Kind:
    def __init__(self, name, save, load, same, save_vias, load_vias, may_refuse=None, feature=None):
        self.name, self.save, self.load, self.same = name, save, load, same
        self.save_vias, self.load_vias = save_vias, load_vias
        self.may_refuse = may_refuse or (lambda v: False)
        # feature(value) -> short structural tag appended to reject/lost-ack keys (narrow known-finding keys)
        self.feature = feature or (lambda v: "")

    def tag(self, value):
        t = self.feature(value)
        return f":{t}" if t else ""


class Store:
    def __init__(self, ctx, buffer_size):
        self.fs = SimFS(buffer_size)
        self.seams = Seams(self.fs).install()
        self.model = {}  # path -> ("ACK", kind, value) | ("UNKNOWN", [(kind, value) | None...])
        self.kinds = {}

    def cleanup(self):
        self.seams.restore()

    def register(self, kind):
        self.kinds[kind.name] = kind

    # ------------------------------------------------------------------
    def _target(self, path, via, mode):
        if via == "str":
            return path, None
        if via == "bytes":
            return path.encode(), None
        if via == "pathlike":
            return SimPath(path), None
        h = self.fs.open(path, mode)
        return h, h

    def save(self, ctx, kindname, value, path, via, fault):
        kind = self.kinds[kindname]
        if via not in kind.save_vias:
            via = kind.save_vias[0]
        old = self.model.get(path)
        fs = self.fs
        fs.begin_call(fault)
        handle = None
        err = None
        crashed = False
        lib_closed = False
        try:
            try:
                target, handle = self._target(path, via, "w")
                kind.save(value, target)
                ctx.called(f"save:{kindname}")
                if handle is not None:
                    if handle.closed:
                        lib_closed = True
                    handle.close()
            except SimCrash:
                crashed = True
            except Exception as e:  # noqa: BLE001 - library/OS errors are data
                err = e
        finally:
            fired = fs.end_call()
            if handle is not None and not handle.closed and not crashed:
                # best effort close outside the fault window; a failed save leaves UNKNOWN anyway
                try:
                    handle.close()
                except Exception:
                    pass
            if crashed:
                fs.recover()
        for f in fired:
            ctx.fault(f[0])
        if lib_closed:
            self.model[path] = ("UNKNOWN", self._cands(old) + [(kindname, value)])
            ctx.fail("handle-closed", f"save:{kindname}", "library closed a caller-owned handle")
        outcome = "ack"
        if crashed or err is not None:
            outcome = "crash" if crashed else f"error:{type(err).__name__}"
            cands = self._cands(old) + [(kindname, value)]
            self.model[path] = ("UNKNOWN", cands)
            if not fired and err is not None:
                if kind.may_refuse(value):
                    ctx.probe("save-refused")
                    outcome = "refused"
                else:
                    ctx.fail("unexpected-reject", f"save:{kindname}:{type(err).__name__}{kind.tag(value)}",
                             f"fault-free save of a valid {kindname} raised {type(err).__name__}: {err}")
            elif fired and err is not None and not isinstance(err, OSError):
                # an injected OSError must surface as an OSError, not be converted into wrong behaviour;
                # other exception types are tolerated only for crashes
                ctx.probe("fault-surfaced-as-other-exception")
        else:
            bad = [f for f in fired if f[0] != "short_read"]
            self.model[path] = ("ACK", kindname, value)
            if bad:
                # the save returned although a fault fired.  Fine if it coped (retried, fell back to another way of
                # writing) and the value IS on the disk; a swallowed error if it is not
                try:
                    self._verify(ctx, path, "str", None, implicit=True)
                except Viol as v:
                    self.model[path] = ("UNKNOWN", self._cands(old) + [(kindname, value)])
                    ctx.fail("swallowed-error", f"save:{kindname}:{bad[0][0]}",
                             f"save returned normally although injected {bad[0][0]} fired at event {bad[0][1]} ({bad[0][2]}), and the "
                             f"value is not what the file holds: {v.detail[:600]}")
                ctx.probe("fault-absorbed-by-save")
            if old is not None:
                ctx.probe("overwrite")
                if old[0] == "ACK" and old[1] != kindname:
                    ctx.probe("overwrite-other-kind")
        ctx.log("save", outcome, kind=kindname, path=path, via=via, fired=[f[0] for f in fired],
                size=len(fs.files.get(path, b"")))
        if outcome == "ack":
            # read-after-write through the plain path, fault free
            self._verify(ctx, path, "str", None, implicit=True)
        return outcome

    def save_after_header(self, ctx, kindname, value, path, header, fault):
        """The client opens a file itself, writes (and flushes) some text of its own, and hands the open handle - now
        positioned past offset 0 - to the library's save function; later it reads its own text back and hands the
        handle, positioned where the document starts, to the load function.  The bytes in front of the position
        belong to the caller: no outcome of the save - success, reported error, crash - may touch them."""
        kind = self.kinds[kindname]
        fs = self.fs
        h = fs.open(path, "w")
        h.write(header)
        h.flush()
        hb = header.encode("utf-8")
        fs.begin_call(fault)
        err, crashed = None, False
        try:
            try:
                kind.save(value, h)
                ctx.called(f"save:{kindname}:positioned-handle")
                lib_closed = h.closed
                if not h.closed:
                    h.flush()
            except SimCrash:
                crashed = True
            except Exception as e:  # noqa: BLE001
                err = e
        finally:
            fired = fs.end_call()
            if crashed:
                fs.recover()
            elif not h.closed:
                try:
                    h.close()
                except Exception:  # noqa: BLE001
                    pass
        for f in fired:
            ctx.fault(f[0])
        content = fs.files.get(path, b"")
        ctx.probe("positioned-handle-save")
        if not content.startswith(hb):
            ctx.fail("wrong-data", f"{kindname}:caller-bytes-before-handle-position",
                     f"the caller wrote {hb!r} and handed the handle over at offset {len(hb)}; after the save "
                     f"({'crash' if crashed else ('error ' + type(err).__name__ if err is not None else 'returned')}; injected: "
                     f"{[f[0] for f in fired]}) the file starts with {content[:len(hb) + 20]!r}")
        if crashed or err is not None:
            if not fired and err is not None and not kind.may_refuse(value):
                ctx.fail("unexpected-reject", f"save:{kindname}:{type(err).__name__}{kind.tag(value)}",
                         f"fault-free save of a valid {kindname} to a positioned handle raised {type(err).__name__}: {err}")
            ctx.log("save_after_header", "crash" if crashed else f"error:{type(err).__name__}", kind=kindname, fired=[f[0] for f in fired])
            return "failed"
        bad = [f for f in fired if f[0] != "short_read"]
        if bad:
            try:
                return self._read_back_after_header(ctx, kind, kindname, value, path, header, content, lib_closed)
            except Viol as v:
                ctx.fail("swallowed-error", f"save:{kindname}:{bad[0][0]}",
                         f"save to a positioned handle returned normally although injected {bad[0][0]} fired, and the value is not what "
                         f"the file holds: {v.detail[:600]}")
        return self._read_back_after_header(ctx, kind, kindname, value, path, header, content, lib_closed)

    def _read_back_after_header(self, ctx, kind, kindname, value, path, header, content, lib_closed):
        fs = self.fs
        if lib_closed:
            ctx.fail("handle-closed", f"save:{kindname}", "library closed a caller-owned handle")
        # read back: own text first, then the library's document from where it starts
        h2 = fs.open(path, "r")
        own = h2.read(len(header))
        ok_, loaded = True, None
        try:
            loaded = kind.load(h2)
        except Exception as e:  # noqa: BLE001
            ok_, loaded = False, e
        finally:
            if not h2.closed:
                h2.close()
        if own != header or not ok_:
            ctx.fail("lost-ack", f"load:{kindname}:{type(loaded).__name__ if not ok_ else 'header'}:positioned-handle{kind.tag(value)}",
                     f"{kindname} saved through a handle positioned after {header!r} cannot be read back from that position: "
                     f"{loaded!r}; file: {content[:120]!r}")
        with judge(ctx, "compare-exception"):
            diff = kind.same(ctx, value, loaded)
        if diff is not None:
            ctx.fail("wrong-data", f"{kindname}:{diff.split(':')[0]}", f"round trip through a positioned handle changed the {kindname}: {diff}")
        ctx.log("save_after_header", "ok", kind=kindname, size=len(content))
        return "ok"

    def external_write(self, ctx, kindname, value, path, text):
        """The client itself writes the JSON text of the value's dictionary form to the path (no library save
        function involved) - then the library's loader must return the value."""
        old = self.model.get(path)
        self.fs.files[path] = text.encode("utf-8")
        self.model[path] = ("ACK", kindname, value)
        if old is not None:
            ctx.probe("overwrite")
        ctx.probe("external-write")
        ctx.log("external_write", "ack", kind=kindname, path=path, size=len(text))
        self._verify(ctx, path, "str", None, implicit=True)
        return "ack"

    @staticmethod
    def _cands(old):
        if old is None:
            return [None]
        if old[0] == "ACK":
            return [(old[1], old[2])]
        return list(old[1])

    def load(self, ctx, kindname, path, via, fault):
        return self._verify(ctx, path, via, fault, implicit=False, want_kind=kindname)

    def _verify(self, ctx, path, via, fault, implicit, want_kind=None):
        m = self.model.get(path)
        if m is None:
            ctx.log("load", "no-file", path=path)
            return "no-file"
        if m[0] == "ACK":
            kindname = m[1]
        else:
            kinds = [c[0] for c in m[1] if c is not None]
            kindname = want_kind if want_kind in kinds else (kinds[-1] if kinds else None)
            if kindname is None:
                ctx.log("load", "no-kind", path=path)
                return "no-kind"
        kind = self.kinds[kindname]
        if via not in kind.load_vias:
            via = kind.load_vias[0]
        fs = self.fs
        if path not in fs.files:
            ctx.log("load", "no-file", path=path)
            return "no-file"
        fs.begin_call(fault)
        handle = None
        err = None
        crashed = False
        lib_closed = False
        loaded = None
        try:
            try:
                source, handle = self._target(path, via, "r")
                loaded = kind.load(source)
                ctx.called(f"load:{kindname}")
                if handle is not None and handle.closed:
                    lib_closed = True
            except SimCrash:
                crashed = True
            except Exception as e:  # noqa: BLE001
                err = e
        finally:
            fired = fs.end_call()
            if handle is not None and not handle.closed:
                try:
                    handle.close()
                except Exception:
                    pass
            if crashed:
                fs.recover()
        for f in fired:
            ctx.fault(f[0])
        hard = [f for f in fired if f[0] != "short_read"]
        if lib_closed:
            ctx.fail("handle-closed", f"load:{kindname}", "library closed a caller-owned handle")
        if crashed:
            ctx.log("load", "crash", path=path)
            return "crash"
        if m[0] == "ACK":
            if err is not None:
                if hard:
                    ctx.log("load", f"error:{type(err).__name__}", path=path, fired=[f[0] for f in fired])
                    return "error"
                ctx.fail("lost-ack", f"load:{kindname}:{type(err).__name__}:{via}{kind.tag(m[2])}",
                         f"acknowledged {kindname} at {path} cannot be loaded via {via}: {type(err).__name__}: {err}")
            if hard:
                ctx.fail("swallowed-error", f"load:{kindname}:{hard[0][0]}", "load returned although an open fault fired")
            with judge(ctx, "compare-exception"):
                diff = kind.same(ctx, m[2], loaded)
            if diff is not None:
                ctx.fail("wrong-data", f"{kindname}:{diff.split(':')[0]}", f"loaded {kindname} differs from acknowledged value: {diff}")
            if any(f[0] == "short_read" for f in fired):
                ctx.probe("short-read-tolerated")
            ctx.log("load", "ok", path=path, via=via, implicit=implicit)
            return "ok"
        # UNKNOWN: may raise anything, or return one of the candidates
        ctx.probe("torn-file-load")
        if err is not None:
            ctx.log("load", f"unknown-error:{type(err).__name__}", path=path)
            return "error"
        diffs = []
        with judge(ctx, "compare-exception"):
            for c in m[1]:
                if c is None or c[0] != kindname:
                    continue
                d = kind.same(ctx, c[1], loaded)
                if d is None:
                    ctx.probe("torn-file-load-returned-old-or-new")
                    ctx.log("load", "unknown-ok", path=path)
                    return "ok"
                diffs.append(d)
        if not diffs:
            ctx.log("load", "unknown-other-kind", path=path)
            return "other"
        ctx.fail("wrong-data", f"{kindname}:after-failed-save",
                 f"after a failed/crashed save, load returned a value that is neither the old nor the new one: {diffs}")

    def final_durability(self, ctx):
        for path in sorted(self.model):
            m = self.model[path]
            if m[0] == "ACK":
                self._verify(ctx, path, "str", None, implicit=True)
