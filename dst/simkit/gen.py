"""Specs (pure JSON data) for gates / circuits / operators, builders turning specs into
library objects at execution time, and seeded random spec generators."""
import math
import re

import sympy

SYMBOLS = ["theta", "phi", "x", "y", "beta", "gamma", "S", "I", "E", "pi", "Q", "x[3]", "x[0]", "alpha_1"]

BUILTIN = {
    # name: (n_qubits, n_params)
    "X": (1, 0), "Y": (1, 0), "Z": (1, 0), "H": (1, 0), "I": (1, 0), "S": (1, 0), "SX": (1, 0), "T": (1, 0),
    "RX": (1, 1), "RY": (1, 1), "RZ": (1, 1), "RH": (1, 1), "PHASE": (1, 1), "U3": (1, 3), "GPi": (1, 1),
    "GPi2": (1, 1), "Delay": (1, 1),
    "CNOT": (2, 0), "CZ": (2, 0), "SWAP": (2, 0), "ISWAP": (2, 0),
    "CPHASE": (2, 1), "XX": (2, 1), "YY": (2, 1), "ZZ": (2, 1), "XY": (2, 1), "MS": (2, 2),
}

# custom gate definitions available to plans (name -> matrix rows as text, ordered param names)
CUSTOMS = {
    "MyRot": {"matrix": [["cos(t/2)", "-sin(t/2)"], ["sin(t/2)", "cos(t/2)"]], "params": ["t"]},
    "MyPhase2": {"matrix": [["1", "0", "0", "0"], ["0", "exp(I*u)", "0", "0"], ["0", "0", "exp(I*v)", "0"],
                            ["0", "0", "0", "exp(I*(u+v))"]], "params": ["u", "v"]},
    "MyFixed": {"matrix": [["0", "I"], ["-I", "0"]], "params": []},
    "MyPerm3": {"matrix": [[("1" if (c == (r + 1) % 8) else "0") for c in range(8)] for r in range(8)], "params": []},
    "MyNonUnitary": {"matrix": [["1", "1/2"], ["0", "1"]], "params": []},
    # a rotation by t written as a product of half-angle matrices, entries deliberately NOT in simplified form
    "MyDoubleAngle": {"matrix": [["cos(t/2)**2 - sin(t/2)**2", "-2*sin(t/2)*cos(t/2)"],
                                 ["2*sin(t/2)*cos(t/2)", "cos(t/2)**2 - sin(t/2)**2"]], "params": ["t"]},
}
# a Hadamard typed in with six digits: unitary only to 6e-7 - the Wavefunction class accepts what it produces,
# numpy's sampler does not.  Only used by steps that ask for it by name (never drawn by the random generators).
CUSTOMS_EXTRA = {
    "MyRoundedH": {"matrix": [["0.707107", "0.707107"], ["0.707107", "-0.707107"]], "params": []},
    # a rotation by a few nanoradians: off-diagonal entries far below the library's 1e-8 "is it zero" tolerance, yet
    # part of the definition (C05: definitions survive to 1e-12 relative)
    "MyTiny": {"matrix": [["1", "-2.0e-9*I"], ["-2.0e-9*I", "1"]], "params": []},
    "MyTinyMixed": {"matrix": [["exp(I*t)", "3.0e-10"], ["-3.0e-10", "exp(-I*t)"]], "params": ["t"]},
}


# ---------------------------------------------------------------- builders
def sym(name):
    return sympy.Symbol(name)


FUNCS = {"cos", "sin", "sqrt", "exp", "tan", "log", "acos", "asin", "atan", "atan2", "sinh", "cosh", "tanh", "Abs", "sign"}
_IDENT = re.compile(r"(?<![\w.])[A-Za-z_]\w*(?:\[[0-9]+\])?")


def expr_names(text):
    """Identifiers (incl. indexed ones such as x[3]) used as symbols in an expression text."""
    return [n for n in dict.fromkeys(_IDENT.findall(text or "")) if n not in FUNCS]


def build_expr(text, symbols=SYMBOLS):
    """Every identifier in ``text`` (other than FUNCS) denotes a Symbol of that name - also names that sympy
    would otherwise read as built-ins (beta, S, I, E, pi, N, O, Q ...)."""
    symbols = list(dict.fromkeys(list(symbols) + expr_names(text)))
    loc = {}
    for i, name in enumerate(n for n in symbols if "[" in n):
        ph = f"idx{i}__placeholder"
        text = re.sub(r"(?<![\w.])" + re.escape(name), ph, text)
        loc[ph] = sympy.Symbol(name)
    for name in symbols:
        if "[" not in name:
            loc[name] = sympy.Symbol(name)
    return sympy.sympify(text, locals=loc)


def build_param(p):
    if isinstance(p, dict):
        if "e" in p:
            return build_expr(p["e"])
        if "sym" in p:
            return sympy.Symbol(p["sym"])
        if "pi" in p:
            return sympy.pi * sympy.Rational(p["pi"][0], p["pi"][1])
        if "sf" in p:
            return sympy.Float(p["sf"])
        if "rat" in p:
            return sympy.Rational(p["rat"][0], p["rat"][1])
        if "c" in p:
            return complex(p["c"][0], p["c"][1])
        raise ValueError(f"bad param spec {p}")
    return p


# A second family of definitions under the *same* names (definitions are stored per circuit, so two circuits
# may legally use one name for different matrices).  A circuit spec picks the family with "cv": 1.
CUSTOMS_ALT = {
    "MyRot": {"matrix": [["cos(t)", "-I*sin(t)"], ["-I*sin(t)", "cos(t)"]], "params": ["t"]},
    "MyPhase2": {"matrix": [["1", "0", "0", "0"], ["0", "exp(I*v)", "0", "0"], ["0", "0", "exp(I*u)", "0"],
                            ["0", "0", "0", "exp(I*(u-v))"]], "params": ["v", "u"]},
    "MyFixed": {"matrix": [["0", "1"], ["1", "0"]], "params": []},
    "MyPerm3": {"matrix": [[("1" if (c == (r + 3) % 8) else "0") for c in range(8)] for r in range(8)], "params": []},
    "MyNonUnitary": {"matrix": [["1", "0"], ["1/3", "1"]], "params": []},
    "MyDoubleAngle": {"matrix": [["1 - 2*sin(t/2)**2", "-sin(t)"], ["sin(t)", "2*cos(t/2)**2 - 1"]], "params": ["t"]},
}

_custom_cache = {}
_variant = [0]
# "cn": 1 in a circuit spec: the same definitions under names that differ from a built-in gate's name only in
# letter case (legal: custom gate names merely must not BE built-in names)
CASE_ALIASES = {"MyRot": "rx", "MyFixed": "h", "MyPhase2": "ms", "MyPerm3": "Swap3", "MyNonUnitary": "s", "MyDoubleAngle": "ry"}
_alias = [0]
# ephemeral definitions: a fresh CustomGateDefinition object per call (nothing in the harness keeps it alive)
EPHEMERAL_DEFS = [False]


def custom_def(name):
    from orquestra.quantum import circuits as C

    key = (name, _variant[0], _alias[0])
    if key not in _custom_cache or EPHEMERAL_DEFS[0]:
        d = CUSTOMS_EXTRA[name] if name in CUSTOMS_EXTRA else (CUSTOMS_ALT if _variant[0] else CUSTOMS)[name]
        syms = [sympy.Symbol(p) for p in d["params"]]
        loc = {p: s for p, s in zip(d["params"], syms)}
        mat = sympy.Matrix([[sympy.sympify(e, locals=loc) for e in row] for row in d["matrix"]])
        gd = C.CustomGateDefinition(CASE_ALIASES.get(name, name) if _alias[0] else name, mat, tuple(syms))
        if EPHEMERAL_DEFS[0]:
            return gd
        _custom_cache[key] = gd
    return _custom_cache[key]


def build_gate(g):
    from orquestra.quantum import circuits as C

    if "g" in g:
        ref = C.builtin_gate_by_name(g["g"])
        nq, npar = BUILTIN[g["g"]]
        if npar:
            return ref(*[build_param(p) for p in g["p"]])
        return ref
    if "custom" in g:
        return custom_def(g["custom"])(*[build_param(p) for p in g.get("p", [])])
    from orquestra.quantum.circuits import _gates as G

    inner = build_gate(g["of"])
    direct = g.get("direct", False)
    w = g["w"]
    if w == "ctrl":
        return G.ControlledGate(inner, g["n"]) if direct else inner.controlled(g["n"])
    if w == "dag":
        return G.Dagger(inner) if direct else inner.dagger
    if w == "pow":
        x = g["x"]
        x = build_param(x) if isinstance(x, dict) else x
        return G.Power(inner, x) if direct else inner.power(x)
    if w == "exp":
        return G.Exponential(inner) if direct else inner.exp
    raise ValueError(f"bad gate spec {g}")


def gate_arity(g):
    if "g" in g:
        return BUILTIN[g["g"]][0]
    if "custom" in g:
        return int(math.log2(len({**CUSTOMS, **CUSTOMS_EXTRA}[g["custom"]]["matrix"])))
    return gate_arity(g["of"]) + (g["n"] if g["w"] == "ctrl" else 0)


def build_op(o):
    from orquestra.quantum import circuits as C

    if "phase" in o:
        return C.MultiPhaseOperation(tuple(build_param(p) for p in o["phase"]))
    return build_gate(o["gate"])(*o["q"])


def build_circuit(c):
    from orquestra.quantum import circuits as C

    _variant[0] = int(c.get("cv", 0))
    _alias[0] = int(c.get("cn", 0))
    try:
        return C.Circuit([build_op(o) for o in c["ops"]], c.get("n"))
    finally:
        _variant[0] = 0
        _alias[0] = 0


def build_pauli(spec):
    """spec: {"kind": "term"|"sum", "terms": [{"ops": {"0": "X"}, "c": number-spec}], "simplify": bool}"""
    from orquestra.quantum.operators import PauliSum, PauliTerm

    terms = [PauliTerm({int(q): o for q, o in t["ops"].items()}, build_param(t["c"])) for t in spec["terms"]]
    if spec.get("kind") == "term":
        return terms[0]
    s = PauliSum(terms)
    return s.simplify() if spec.get("simplify") else s


def pauli_terms_of(spec):
    """[(coef, {q: op})] for the reference dense model."""
    return [(complex(build_param(t["c"])), {int(q): o for q, o in t["ops"].items() if o != "I"}) for t in spec["terms"]]


# ---------------------------------------------------------------- random generators
ANGLES = [0.0, math.pi, -math.pi, math.pi / 2, math.pi / 4, 2 * math.pi, 0.1, -0.7, 1.0, 3.0, 12.5, 1e-3]


def rand_angle(r):
    if r.random() < 0.5:
        return r.choice(ANGLES)
    return r.uniform(-2 * math.pi, 2 * math.pi)


def rand_numeric_param(r, rich=False):
    if not rich:
        return rand_angle(r)
    k = r.random()
    if k < 0.45:
        return rand_angle(r)
    if k < 0.55:
        return r.choice([0, 1, -1, 2, 3, 7, -5])
    if k < 0.62:
        return r.choice([-0.0, 1e-20, 0.30000000000000004, 1e-7, 123.456, -2.5e3, 0.1 + 0.2])
    if k < 0.72:
        return {"pi": [r.choice([1, -1, 3, 1]), r.choice([1, 2, 3, 4, 8])]}
    if k < 0.80:
        return {"rat": [r.choice([1, 2, -3, 5]), r.choice([2, 3, 7])]}
    if k < 0.88:
        return {"sf": r.choice(["0.5", "1.25", "-0.1", "2.0", "3.14159"])}
    return r.uniform(-10, 10)


SYM_EXPRS = ["{s}", "2*{s}", "{s}/2", "{s}+1", "-{s}", "{s}+{t}", "{s}*{t}", "{s}-{t}/3", "{s}**2", "0.5*{s}+0.25",
             "pi*{s}", "{s}+pi/2", "cos({s})", "sqrt({s}**2+1)",
             # the rest of the elementary functions an angle is commonly computed with
             "2*acos({s}/4)", "asin({s}/5)", "atan({s})", "atan2({s}, 2)", "sinh({s}/2)", "cosh({t}/2)-1", "tanh({s})", "exp({s}/3)",
             "log({s}**2+1)", "Abs({s})"]


def rand_symbolic_param(r, symbols):
    s, t = r.choice(symbols), r.choice(symbols)
    if r.random() < 0.4:
        return {"sym": s}
    return {"e": r.choice(SYM_EXPRS).format(s=s, t=t)}


def rand_base_gate(r, max_arity=2, symbolic=0.0, rich=False, exclude=(), custom=0.1, symbols=None):
    symbols = symbols or ["theta", "phi", "x"]
    if r.random() < custom:
        names = [n for n in CUSTOMS if n not in exclude and int(math.log2(len(CUSTOMS[n]["matrix"]))) <= max_arity]
        if names:
            name = r.choice(names)
            ps = [rand_symbolic_param(r, symbols) if r.random() < symbolic else rand_numeric_param(r, rich)
                  for _ in CUSTOMS[name]["params"]]
            return {"custom": name, "p": ps}
    names = [n for n, (q, _) in BUILTIN.items() if q <= max_arity and n not in exclude]
    name = r.choice(names)
    nq, npar = BUILTIN[name]
    g = {"g": name}
    if npar:
        g["p"] = [rand_symbolic_param(r, symbols) if r.random() < symbolic else rand_numeric_param(r, rich) for _ in range(npar)]
    return g


def has_symbols(g):
    if "of" in g:
        return has_symbols(g["of"])
    return any(isinstance(p, dict) and ("e" in p or "sym" in p) for p in g.get("p", []))


def has_exact_params(g):
    """Rational / pi-multiple parameters: sympy then keeps the gate matrix exact, and powers of exact matrices
    take seconds to evaluate (RH(5/7)^-2: 3 s per evaluation)."""
    if "of" in g:
        return has_exact_params(g["of"])
    return any(isinstance(p, dict) and ("rat" in p or "pi" in p or "sf" in p) for p in g.get("p", []))


def has_wrapper(g, w):
    while "of" in g:
        if g["w"] == w:
            return True
        g = g["of"]
    return False


def rand_gate(r, max_arity=3, wrappers=0.3, depth=2, powexp=True, direct=0.2, allow_exp=False,
              pow_exponents=(2, 3, -1, 0, 1, -2), multi_pow=False, **kw):
    g = rand_base_gate(r, max_arity=min(max_arity, 3), **kw)
    d = 0
    while d < depth and r.random() < wrappers:
        d += 1
        choices = ["dag"]
        if gate_arity(g) < max_arity:
            choices += ["ctrl", "ctrl"]
        if powexp and not has_symbols(g) and not has_exact_params(g) and (multi_pow or not has_wrapper(g, "pow")):
            choices += ["pow"]
        if allow_exp and not has_symbols(g) and not has_exact_params(g):
            choices += ["exp"]
        w = r.choice(choices)
        spec = {"w": w, "of": g}
        if w == "ctrl":
            spec["n"] = r.randint(1, max_arity - gate_arity(g))
        if w == "pow":
            spec["x"] = r.choice(list(pow_exponents))
        if r.random() < direct:
            spec["direct"] = True
        g = spec
    return g


def rand_qubits(r, k, n):
    return r.sample(range(n), k)


def rand_circuit(r, n, n_ops, phase_ops=0.0, explicit_n=0.5, max_arity=4, echo=0.12, **kw):
    ops = []
    for _ in range(n_ops):
        if phase_ops and r.random() < phase_ops:
            ops.append({"phase": [rand_angle(r) for _ in range(2 ** n)]})
            continue
        g = rand_gate(r, max_arity=min(n, max_arity), **kw)
        k = gate_arity(g)
        if k > n:
            continue
        ops.append({"gate": g, "q": rand_qubits(r, k, n)})
        if k >= 2 and r.random() < echo:
            # the same gate again, on the same qubits listed in another order (CNOT(a,b) CNOT(b,a) ...): whoever
            # treats "same gate, same set of qubits" as "same operation" gets this wrong
            q2 = list(ops[-1]["q"])
            while q2 == ops[-1]["q"]:
                r.shuffle(q2)
            ops.append({"gate": g, "q": q2})
    c = {"ops": ops}
    used = max([max(o["q"]) for o in ops if "q" in o] + [-1]) + 1
    has_phase = any("phase" in o for o in ops)
    if has_phase or used < n or r.random() < explicit_n or not ops:
        c["n"] = n
    return c


def basis_circuit(bits):
    """X on every qubit whose bit is 1 (+ explicit width)."""
    return {"ops": [{"gate": {"g": "X"}, "q": [q]} for q, b in enumerate(bits) if b], "n": len(bits)}


def rand_pauli(r, n, n_terms, ops="XYZ", complex_coef=0.0, constant=0.2, dup=0.2):
    terms = []
    for _ in range(n_terms):
        if r.random() < constant:
            t = {}
        else:
            k = r.randint(1, max(1, n))
            t = {str(q): r.choice(ops) for q in r.sample(range(n), k)}
        c = r.choice([1.0, -1.0, 0.5, 2.0, -0.25, 3, r.uniform(-3, 3)])
        if complex_coef and r.random() < complex_coef:
            c = {"c": [r.uniform(-2, 2), r.uniform(-2, 2)]}
        terms.append({"ops": t, "c": c})
        if terms and r.random() < dup:
            terms.append({"ops": dict(r.choice(terms)["ops"]), "c": r.choice([1.0, -0.5, 2])})
    return {"kind": "sum", "terms": terms}
