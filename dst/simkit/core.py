"""Core of the deterministic simulator: run context, event log, execution loop.

A *plan* is pure JSON data: {"format", "property", "seed", "config", "steps"}.
Executing a plan is a pure function of the plan and of the code under /repo: the
run PRNG is only used while *generating* the plan; at execution time every random
choice derives from the step's own sub-seed ``rs``.
"""
import faulthandler
import hashlib
from fnmatch import fnmatchcase
import json
import os
import pickle
import random
import traceback
from types import SimpleNamespace
from collections import Counter

FORMAT = 1


class Viol(Exception):
    """A property violation found by an oracle."""

    def __init__(self, cls, key, detail):
        super().__init__(f"{key}: {detail}")
        self.cls, self.key, self.detail = cls, key, detail


class KnownHit(Exception):
    """Raised after a violation matching a listed known finding was recorded."""


class WallLimit(Exception):
    """Raised inside an oracle evaluation that exceeded its wall-clock safety net."""


class SimCrash(BaseException):
    """Simulated process crash (kill -9) unwinding a library call."""


def canon(x):
    """Canonical JSON-able form used for logging / digests / comparisons."""
    import numpy as np

    if x is None or isinstance(x, (bool, str)):
        return x
    if isinstance(x, (int,)) and not isinstance(x, bool):
        return int(x)
    if isinstance(x, float):
        return ["f", repr(x)]
    if isinstance(x, complex):
        return ["c", repr(x.real), repr(x.imag)]
    if isinstance(x, np.generic):
        return canon(x.item())
    if isinstance(x, np.ndarray):
        return ["nd", list(x.shape), [canon(v) for v in x.reshape(-1).tolist()]]
    if isinstance(x, (list, tuple)):
        return [canon(v) for v in x]
    if isinstance(x, (set, frozenset)):
        return ["set", sorted((canon(v) for v in x), key=lambda v: json.dumps(v, sort_keys=True))]
    if isinstance(x, dict):
        items = [(json.dumps(canon(k), sort_keys=True), canon(v)) for k, v in x.items()]
        return {"d": sorted(items, key=lambda kv: kv[0])}
    try:
        import sympy

        if isinstance(x, sympy.Basic):
            return ["sym", sympy.srepr(x)]
        if isinstance(x, sympy.MatrixBase):
            return ["symm", list(x.shape), [sympy.srepr(v) for v in x]]
    except Exception:  # pragma: no cover
        pass
    return ["repr", type(x).__name__, repr(x)]


def cdump(x):
    return json.dumps(canon(x), sort_keys=True)


class Ctx:
    def __init__(self, pid, plan, known_keys=()):
        self.pid = pid
        self.plan = plan
        self.config = plan.get("config", {})
        self.known_keys = tuple(known_keys)  # exact keys or fnmatch patterns (narrow: class + structural feature)
        self.events = []
        self.probes = Counter()
        self.faults = Counter()
        self.known_hits = Counter()
        self.sig = []
        self.violation = None
        self.nontrivial = False
        self.step_i = -1
        self.real_calls = Counter()  # which real library entry points ran

    # -- randomness (never the run PRNG) --------------------------------
    def rng(self, step, salt=0):
        return random.Random(int(step.get("rs", 0)) * 1000003 + salt)

    # -- logging ---------------------------------------------------------
    def log(self, op, outcome, _sig=None, **kw):
        self.events.append(json.dumps([self.step_i, op, outcome, canon(kw)], sort_keys=True))
        self.sig.append(f"{op}:{outcome}" if _sig is None else f"{op}:{outcome}:{_sig}")

    def probe(self, name, n=1):
        self.probes[name] += n

    def fault(self, kind, n=1):
        self.faults[kind] += n
        self.sig.append(f"!{kind}")

    def called(self, name):
        self.real_calls[name] += 1

    # -- verdicts --------------------------------------------------------
    def fail(self, cls, key, detail):
        full = f"{self.pid}/{cls}"
        fkey = f"{full}:{key}" if key else full
        for pat in self.known_keys:
            if fkey == pat or ("*" in pat and fnmatchcase(fkey, pat)):
                self.known_hits[pat] += 1
                raise KnownHit(fkey)
        raise Viol(full, fkey, str(detail)[:2000])

    def check(self, cond, cls, key, detail):
        if not cond:
            self.fail(cls, key, detail() if callable(detail) else detail)

    def digest(self):
        h = hashlib.sha256()
        for e in self.events:
            h.update(e.encode())
            h.update(b"\n")
        return "sha256:" + h.hexdigest()

    def signature(self):
        return hashlib.sha1("|".join(self.sig).encode()).hexdigest()[:16]


class Result:
    __slots__ = (
        "violation", "digest", "signature", "nontrivial", "probes", "faults",
        "known_hits", "n_steps", "events", "real_calls", "harness_error",
    )

    def to_dict(self):
        return {k: getattr(self, k) for k in self.__slots__}


def execute(world, plan, known_keys=(), keep_events=False):
    """Run one plan. Never raises for library misbehaviour; harness bugs are
    reported in ``harness_error``."""
    import warnings

    warnings.simplefilter("ignore")  # numpy/sympy warnings from library code are not verdicts; keep the logs readable
    ctx = Ctx(plan["property"], plan, known_keys)
    res = Result()
    res.harness_error = None
    st = None
    try:
        st = world.init(ctx, plan)
        for i, step in enumerate(plan["steps"]):
            ctx.step_i = i
            try:
                world.step(ctx, st, step)
                inv = getattr(world, "invariant", None)
                if inv is not None:
                    inv(ctx, st, step)
            except KnownHit as k:
                ctx.log(step.get("op"), "known-finding", key=str(k))
                rs = getattr(world, "resync", None)
                if rs is not None:
                    rs(ctx, st, step)
            except Viol as v:
                ctx.violation = {"class": v.cls, "key": v.key, "step": i, "detail": v.detail}
                ctx.log(step.get("op"), "VIOLATION", cls=v.cls, key=v.key)
                break
        if ctx.violation is None:
            ctx.step_i = len(plan["steps"])
            fin = getattr(world, "finish", None)
            if fin is not None:
                try:
                    fin(ctx, st)
                except KnownHit as k:
                    ctx.log("finish", "known-finding", key=str(k))
                except Viol as v:
                    ctx.violation = {"class": v.cls, "key": v.key, "step": ctx.step_i, "detail": v.detail}
                    ctx.log("finish", "VIOLATION", cls=v.cls, key=v.key)
    except SimCrash:
        res.harness_error = "SimCrash escaped a step:\n" + traceback.format_exc()
    except Exception:
        res.harness_error = traceback.format_exc()
    finally:
        try:
            if st is not None:
                world.cleanup(st)
        except Exception:  # pragma: no cover
            res.harness_error = (res.harness_error or "") + traceback.format_exc()
    res.violation = ctx.violation
    res.digest = ctx.digest()
    res.signature = ctx.signature()
    res.nontrivial = bool(ctx.nontrivial)
    res.probes = dict(ctx.probes)
    res.faults = dict(ctx.faults)
    res.known_hits = dict(ctx.known_hits)
    res.n_steps = len(plan["steps"])
    res.real_calls = dict(ctx.real_calls)
    res.events = list(ctx.events) if keep_events else None
    return res


def judge(ctx, cls="oracle-exception"):
    """Context manager: an unexpected exception while digesting a *library result*
    means the library handed back something malformed -> violation, not harness bug."""
    return _Judge(ctx, cls)


class _Judge:
    def __init__(self, ctx, cls):
        self.ctx, self.cls = ctx, cls

    def __enter__(self):
        return self

    def __exit__(self, et, ev, tb):
        if et is None or issubclass(et, (Viol, KnownHit, SimCrash)):
            return False
        if issubclass(et, Exception):
            detail = "".join(traceback.format_exception(et, ev, tb))[-1500:]
            self.ctx.fail(self.cls, et.__name__, detail)
        return False


def call(fn, *a, **kw):
    """Invoke library code; returns (ok, value_or_exception)."""
    try:
        return True, fn(*a, **kw)
    except (SimCrash, WallLimit):
        raise
    except Exception as e:  # library exceptions are data for the oracle
        return False, e


class time_limit:
    """Safety net around oracle-side evaluations that may be pathologically slow in sympy.
    Only ever used where the outcome is a *skipped* comparison (a probe), never a verdict."""

    def __init__(self, seconds):
        self.seconds = seconds

    def _raise(self, *_):
        raise WallLimit()

    def __enter__(self):
        import signal

        self._old = signal.signal(signal.SIGALRM, self._raise)
        signal.setitimer(signal.ITIMER_REAL, self.seconds)
        return self

    def __exit__(self, *exc):
        import signal

        signal.setitimer(signal.ITIMER_REAL, 0)
        signal.signal(signal.SIGALRM, self._old)
        return False


# ---------------------------------------------------------------- process isolation
class ChildDied(Exception):
    """The forked child running one simulated execution hung (watchdog) or crashed."""


def run_isolated(fn, timeout=120):
    """Run fn() in a forked child and return its picklable result.

    Every simulated run starts from the same process image (the state right after the imports):
    process-global state in the code under test - caches, memo tables, class attributes - cannot
    leak from one run into the next, so a run is a pure function of its plan, replays are exact
    and a hung run kills only its own child."""
    import tempfile

    tb_fd, tb_path = tempfile.mkstemp(prefix="oq-hang-", suffix=".txt", dir="/var/tmp")
    r, w = os.pipe()
    pid = os.fork()
    if pid == 0:
        code = 0
        try:
            os.close(r)
            tb_file = os.fdopen(tb_fd, "w")
            faulthandler.dump_traceback_later(timeout, exit=True, file=tb_file)
            try:
                out = ("ok", fn())
            except BaseException:  # noqa: BLE001
                out = ("err", traceback.format_exc())
            data = pickle.dumps(out)
            with os.fdopen(w, "wb") as f:
                f.write(data)
        except BaseException:  # noqa: BLE001
            code = 3
        finally:
            os._exit(code)
    os.close(w)
    os.close(tb_fd)
    with os.fdopen(r, "rb") as f:
        data = f.read()
    os.waitpid(pid, 0)
    try:
        tb = open(tb_path).read()
    except OSError:
        tb = ""
    try:
        os.remove(tb_path)
    except OSError:
        pass
    if not data:
        e = ChildDied(f"isolated run died without a result (hang > {timeout}s or crash)\n{tb[-3000:]}")
        e.hang_traceback = tb
        raise e
    kind, val = pickle.loads(data)
    if kind == "err":
        raise ChildDied("isolated run raised:\n" + val)
    return val


def execute_isolated(world, plan, known_keys=(), keep_events=False, timeout=120):
    """execute() in a forked child; returns an object with the same fields as Result."""
    try:
        d = run_isolated(lambda: execute(world, plan, known_keys, keep_events).to_dict(), timeout)
    except ChildDied as e:
        d = {k: None for k in Result.__slots__}
        d.update(violation=None, digest=None, signature="", nontrivial=False, probes={}, faults={}, known_hits={},
                 n_steps=len(plan["steps"]), events=[], real_calls={}, harness_error=str(e))
    return SimpleNamespace(**d)


def clear_library_caches(prefix="orquestra.quantum"):
    """Clear every functools cache found in the library's modules (module-level functions, and functions /
    staticmethods on classes) - discovered at call time, so the harness does not depend on the name or even the
    existence of any particular private helper."""
    import sys

    n = 0
    for name, mod in list(sys.modules.items()):
        if mod is None or not name.startswith(prefix):
            continue
        for obj in list(vars(mod).values()):
            cands = [obj]
            if isinstance(obj, type) and getattr(obj, "__module__", "").startswith(prefix):
                cands += [getattr(v, "__func__", v) for v in vars(obj).values()]
            for c in cands:
                cc = getattr(c, "cache_clear", None)
                if callable(cc) and hasattr(c, "cache_info"):
                    try:
                        cc()
                        n += 1
                    except Exception:  # noqa: BLE001
                        pass
    return n


def classify_hang(tb):
    """Who was running when the watchdog fired?  faulthandler lists frames innermost first.  Skipping harness
    frames (the stand-ins are called *by* the code under test), the first frame decides: the library under test
    -> the library itself is not making progress (a liveness violation); sympy/numpy/anything else -> the harness
    asked for something too slow to evaluate (a harness error)."""
    import re

    for m in re.finditer(r'File "([^"]+)", line (\d+) in (\S+)', tb or ""):
        path, line, fn = m.group(1), m.group(2), m.group(3)
        if "/verif/" in path or "/dst/simkit/" in path or "/dst/worlds/" in path:
            continue
        if "orquestra/quantum" in path:
            return "library", f"{os.path.basename(path)}:{fn}"
        return "other", f"{os.path.basename(path)}:{fn}"
    return "unknown", ""
