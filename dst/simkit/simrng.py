"""SimRNG: owns numpy.random.default_rng and numpy.random.choice for the duration of a run.

mode "real": genuine numpy generators, merely seeded from the plan (per step).
mode "adversarial": a stub whose choice() returns any *legal* draw (indices of strictly
positive probability) chosen by a policy; every such vector is a possible outcome of the
real generator, so properties quantifying over sampling must survive it.
"""
import random

import numpy as np

POLICIES = ["first", "last", "least", "uniform", "alternate", "most", "ascending"]


def _validate(a, size, p):
    n = len(a) if hasattr(a, "__len__") else int(a)
    if p is None:
        return n, None
    p = np.asarray(p, dtype=float)
    if p.ndim != 1 or len(p) != n:
        raise ValueError("'a' and 'p' must have same size")
    if np.any(p < 0):
        raise ValueError("probabilities are not non-negative")
    if abs(float(np.sum(p)) - 1.0) > 1.5e-8:
        raise ValueError("probabilities do not sum to 1")
    return n, p


class AdversarialChooser:
    """Stands in for numpy.random.Generator.  Only choice() is adversarial; every other method (multinomial,
    permutation, integers, random ...) is answered by a genuine numpy generator seeded from the plan, so code that
    draws its samples differently still runs - on real numpy sampling - instead of tripping over the stub."""

    def __init__(self, policy, seed, stats):
        self.policy, self.r, self.stats = policy, random.Random(seed), stats
        self._real = np.random.Generator(np.random.PCG64(int(seed) % (2 ** 63)))

    def __getattr__(self, name):
        if name.startswith("__"):
            raise AttributeError(name)
        self.stats["rng-delegated-" + name] += 1
        return getattr(self._real, name)

    def _indices(self, n, p, size):
        support = [i for i in range(n) if p is None or p[i] > 0]
        if not support:
            raise ValueError("no support")
        k = int(size) if size is not None else 1
        pol = self.policy
        if pol == "first":
            idx = [support[0]] * k
        elif pol == "last":
            idx = [support[-1]] * k
        elif pol == "least":
            j = min(support, key=lambda i: (p[i] if p is not None else 0, i))
            idx = [j] * k
        elif pol == "most":
            j = max(support, key=lambda i: (p[i] if p is not None else 0, -i))
            idx = [j] * k
        elif pol == "alternate":
            idx = [support[i % len(support)] for i in range(k)]
        elif pol == "ascending":
            # distinct outcomes, the least probable ones first
            order = sorted(support, key=lambda i: (p[i] if p is not None else 0, i))
            idx = [order[i % len(order)] for i in range(k)]
        else:
            idx = [self.r.choice(support) for _ in range(k)]
        self.stats[f"rng-adversarial-{pol}"] += 1
        return idx

    def random(self, size=None, dtype=np.float64, out=None):
        """Uniform numbers in [0, 1) the unlucky way: exactly 0.0 and the largest double below 1 are legal draws."""
        hi = float(np.nextafter(1.0, 0.0))
        k = 1 if size is None else int(np.prod(size))
        pol = self.policy
        if pol in ("first", "least"):
            vals = [0.0] * k
        elif pol in ("last", "most"):
            vals = [hi] * k
        elif pol in ("alternate", "ascending"):
            vals = [(0.0, hi)[i % 2] for i in range(k)]
        else:
            vals = [self.r.choice([0.0, hi, self.r.random()]) for _ in range(k)]
        self.stats[f"rng-adversarial-random-{pol}"] += 1
        if size is None:
            return vals[0]
        return np.array(vals, dtype=float).reshape(size)

    def choice(self, a, size=None, replace=True, p=None, axis=0, shuffle=True):
        n, pp = _validate(a, size, p)
        idx = self._indices(n, pp, size)
        if isinstance(a, np.ndarray):
            arr = a
        elif hasattr(a, "__len__"):
            arr = np.asarray(a)
        else:
            arr = np.arange(int(a))
        out = arr[np.array(idx, dtype=int)]
        if size is None:
            return out[0]
        return out


class SimRNG:
    def __init__(self, mode, policy, stats):
        self.mode, self.policy, self.stats = mode, policy, stats
        self.step_seed = 0
        self.counter = 0
        self._saved = None

    def install(self):
        self._saved = (np.random.default_rng, np.random.choice)
        np.random.default_rng = self.default_rng
        np.random.choice = self.global_choice
        return self

    def restore(self):
        if self._saved:
            np.random.default_rng, np.random.choice = self._saved
            self._saved = None

    def begin_step(self, rs):
        self.step_seed = int(rs)
        self.counter = 0
        # the legacy global generators too: code that reaches for numpy.random.<anything> or the random module
        # must still be a pure function of the plan (the simulator owns every source of randomness)
        np.random.seed(self.step_seed % (2 ** 32))
        random.seed(self.step_seed)

    def _next_seed(self):
        self.counter += 1
        return (self.step_seed * 7919 + self.counter) % (2 ** 63)

    def default_rng(self, seed=None):
        self.stats["rng-default_rng"] += 1
        if self.mode == "adversarial":
            return AdversarialChooser(self.policy, self._next_seed() if seed is None else seed, self.stats)
        real = self._saved[0]
        if seed is None:
            return real(self._next_seed())
        self.stats["rng-user-seeded"] += 1
        return real(seed)

    def global_choice(self, a, size=None, replace=True, p=None):
        self.stats["rng-global-choice"] += 1
        if self.mode == "adversarial":
            return AdversarialChooser(self.policy, self._next_seed(), self.stats).choice(a, size, replace, p)
        return np.random.RandomState(self._next_seed() % (2 ** 32)).choice(a, size, replace, p)
