"""Independent reference models (oracles)."""
import itertools
import math

import numpy as np


def gate_matrix(gate):
    """The gate's *own* matrix as complex numpy array (C01 wording)."""
    m = gate.matrix
    return np.array(m.tolist(), dtype=complex)


def apply_matrix(state, u, qubits, n):
    """Apply k-qubit matrix u to `qubits` (ordered) of an n-qubit state; qubit 0 = MSB."""
    k = len(qubits)
    t = np.asarray(state, dtype=complex).reshape((2,) * n)
    ut = np.asarray(u, dtype=complex).reshape((2,) * (2 * k))
    r = np.tensordot(ut, t, axes=(list(range(k, 2 * k)), list(qubits)))
    # result axes: 0..k-1 are the gate's output legs, the rest are the untouched qubits in order
    r = np.moveaxis(r, list(range(k)), list(qubits))
    return r.reshape(-1)


def apply_op(state, op, n):
    """Reference semantics of one operation (GateOperation or MultiPhaseOperation)."""
    if hasattr(op, "gate"):
        return apply_matrix(state, gate_matrix(op.gate), list(op.qubit_indices), n)
    # MultiPhaseOperation: component j is multiplied by exp(i theta_j)
    thetas = np.array([float(p) for p in op.params], dtype=float)
    return np.asarray(state, dtype=complex) * np.exp(1j * thetas)


def run_circuit(ops, n, state=None):
    if state is None:
        state = np.zeros(2 ** n, dtype=complex)
        state[0] = 1.0
    state = np.asarray(state, dtype=complex)
    for op in ops:
        state = apply_op(state, op, n)
    return state


def index_of(bits):
    """Basis index of a bit tuple, qubit 0 most significant."""
    i = 0
    for b in bits:
        i = (i << 1) | int(b)
    return i


def bits_of(i, n):
    return tuple((i >> (n - 1 - q)) & 1 for q in range(n))


def z_eigenvalue(bits, qubits):
    v = 1
    for q in qubits:
        if bits[q]:
            v = -v
    return v


def pauli_dense(terms, n):
    """Dense matrix of sum_k c_k * P_k, terms = [(coef, {qubit: 'X'|'Y'|'Z'})], qubit 0 leftmost."""
    P = {
        "I": np.eye(2, dtype=complex),
        "X": np.array([[0, 1], [1, 0]], dtype=complex),
        "Y": np.array([[0, -1j], [1j, 0]], dtype=complex),
        "Z": np.array([[1, 0], [0, -1]], dtype=complex),
    }
    out = np.zeros((2 ** n, 2 ** n), dtype=complex)
    for coef, ops in terms:
        m = np.array([[1.0 + 0j]])
        for q in range(n):
            m = np.kron(m, P[ops.get(q, "I")])
        out += coef * m
    return out


def marginal(dist, qubits):
    """dist: {tuple: p}; returns {tuple: p} over the listed qubits in listed order."""
    out = {}
    for k, p in dist.items():
        nk = tuple(k[q] for q in qubits)
        out[nk] = out.get(nk, 0.0) + p
    return out


def all_bits(n):
    return list(itertools.product([0, 1], repeat=n))


def entropy(p):
    return -sum(x * math.log(x) for x in p if x > 0)
